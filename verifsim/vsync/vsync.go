// Package vsync stands in for "sync" inside the simulated watermill packages.
// Blocking is mediated by the simrt scheduler (a goroutine blocked in a real
// sync.Mutex is not durably blocked for testing/synctest, which would hang the
// bubble). Outside a simulation the types fall back to spinning on the same
// state, which is enough for package initialisation and single-threaded use.
package vsync

import (
	"sync"

	"github.com/ThreeDotsLabs/watermill/verifsim/simrt"
)

type (
	Map    = sync.Map
	Locker = sync.Locker
)

// Pool is a deterministic model of sync.Pool: a LIFO free list that always reuses (sync.Pool may drop items at
// any time, so "never drops" is one of its legal behaviours, and the one that maximises aliasing). Every pool is
// emptied when a simulation starts, so that a run does not depend on what earlier runs of the process left behind.
type Pool struct {
	New func() any

	items      []any
	registered bool
}

func (p *Pool) register() {
	if !p.registered {
		p.registered = true
		simrt.RegisterReset(func() {
			guard.Lock()
			p.items = nil
			guard.Unlock()
		})
	}
}

func (p *Pool) Get() any {
	guard.Lock()
	p.register()
	if n := len(p.items); n > 0 {
		x := p.items[n-1]
		p.items = p.items[:n-1]
		guard.Unlock()
		return x
	}
	guard.Unlock()
	if p.New != nil {
		return p.New()
	}
	return nil
}

func (p *Pool) Put(x any) {
	if x == nil {
		return
	}
	guard.Lock()
	p.register()
	p.items = append(p.items, x)
	guard.Unlock()
}

// guard serialises state changes of the primitives when they are used outside
// the scheduler (no simulation running, or tear-down).
var guard sync.Mutex

// Mutex: after an Unlock any contender may win (Go's normal mode allows barging).
type Mutex struct {
	locked bool
}

func (m *Mutex) Lock() {
	simrt.Park(func() bool { return !m.locked })
	guard.Lock()
	m.locked = true
	guard.Unlock()
}

func (m *Mutex) TryLock() bool {
	simrt.Park(nil)
	guard.Lock()
	defer guard.Unlock()
	if m.locked {
		return false
	}
	m.locked = true
	return true
}

func (m *Mutex) Unlock() {
	guard.Lock()
	if !m.locked && !simrt.Dying() {
		guard.Unlock()
		panic("sync: unlock of unlocked mutex")
	}
	m.locked = false
	guard.Unlock()
}

const rwmutexMaxReaders = 1 << 30

// RWMutex is a port of Go's algorithm (readerCount / readerWait / writer mutex /
// two semaphores) so that a pending Lock blocks new RLocks exactly as documented.
type RWMutex struct {
	w           Mutex
	writerSem   int
	readerSem   int
	readerCount int
	readerWait  int
}

func (rw *RWMutex) RLock() {
	simrt.Park(nil)
	guard.Lock()
	rw.readerCount++
	slow := rw.readerCount < 0
	guard.Unlock()
	if slow {
		// a writer is pending
		simrt.Park(func() bool { return rw.readerSem > 0 })
		guard.Lock()
		rw.readerSem--
		guard.Unlock()
	}
}

func (rw *RWMutex) TryRLock() bool {
	simrt.Park(nil)
	guard.Lock()
	defer guard.Unlock()
	if rw.readerCount < 0 {
		return false
	}
	rw.readerCount++
	return true
}

func (rw *RWMutex) RUnlock() {
	guard.Lock()
	defer guard.Unlock()
	rw.readerCount--
	if r := rw.readerCount; r < 0 {
		if (r+1 == 0 || r+1 == -rwmutexMaxReaders) && !simrt.Dying() {
			panic("sync: RUnlock of unlocked RWMutex")
		}
		rw.readerWait--
		if rw.readerWait == 0 {
			rw.writerSem++
		}
	}
}

func (rw *RWMutex) Lock() {
	rw.w.Lock()
	guard.Lock()
	r := rw.readerCount
	rw.readerCount -= rwmutexMaxReaders
	wait := false
	if r != 0 {
		rw.readerWait += r
		wait = rw.readerWait != 0
	}
	guard.Unlock()
	if wait {
		simrt.Park(func() bool { return rw.writerSem > 0 })
		guard.Lock()
		rw.writerSem--
		guard.Unlock()
	}
}

func (rw *RWMutex) TryLock() bool {
	if !rw.w.TryLock() {
		return false
	}
	guard.Lock()
	defer guard.Unlock()
	if rw.readerCount != 0 {
		rw.w.locked = false
		return false
	}
	rw.readerCount -= rwmutexMaxReaders
	return true
}

func (rw *RWMutex) Unlock() {
	guard.Lock()
	rw.readerCount += rwmutexMaxReaders
	r := rw.readerCount
	if r >= rwmutexMaxReaders && !simrt.Dying() {
		guard.Unlock()
		panic("sync: Unlock of unlocked RWMutex")
	}
	rw.readerSem += r
	guard.Unlock()
	rw.w.Unlock()
}

func (rw *RWMutex) RLocker() Locker { return (*rlocker)(rw) }

type rlocker RWMutex

func (r *rlocker) Lock()   { (*RWMutex)(r).RLock() }
func (r *rlocker) Unlock() { (*RWMutex)(r).RUnlock() }

// WaitGroup with Go's panics for misuse.
type WaitGroup struct {
	n int
}

func (wg *WaitGroup) Add(delta int) {
	guard.Lock()
	wg.n += delta
	neg := wg.n < 0
	guard.Unlock()
	if neg && !simrt.Dying() {
		panic("sync: negative WaitGroup counter")
	}
}

func (wg *WaitGroup) Done() { wg.Add(-1) }

func (wg *WaitGroup) Wait() {
	simrt.Park(func() bool { return wg.n <= 0 })
}

func (wg *WaitGroup) Go(f func()) {
	wg.Add(1)
	simrt.Go(func() {
		defer wg.Done()
		f()
	})
}

// Once implemented on the simulated Mutex so that a long first call parks its competitors.
type Once struct {
	m    Mutex
	done bool
}

func (o *Once) Do(f func()) {
	if o.done {
		return
	}
	o.m.Lock()
	defer o.m.Unlock()
	if !o.done {
		defer func() { o.done = true }()
		f()
	}
}

// Cond: Wait registers the caller, releases L, parks until a Signal or Broadcast issued after the registration
// reaches it, and re-locks L. Signal wakes the longest waiting goroutine (the order of sync.Cond's notify list).
type Cond struct {
	L Locker

	waiters []*condWaiter
}

type condWaiter struct{ woken bool }

func NewCond(l Locker) *Cond { return &Cond{L: l} }

func (c *Cond) Wait() {
	w := &condWaiter{}
	guard.Lock()
	c.waiters = append(c.waiters, w)
	guard.Unlock()
	c.L.Unlock()
	simrt.Park(func() bool { return w.woken })
	c.L.Lock()
}

func (c *Cond) Signal() {
	guard.Lock()
	if len(c.waiters) > 0 {
		c.waiters[0].woken = true
		c.waiters = c.waiters[1:]
	}
	guard.Unlock()
}

func (c *Cond) Broadcast() {
	guard.Lock()
	for _, w := range c.waiters {
		w.woken = true
	}
	c.waiters = nil
	guard.Unlock()
}

// OnceFunc, OnceValue and OnceValues as in package sync (a panic of f is re-raised on every call).
func OnceFunc(f func()) func() {
	var once Once
	var p any
	valid := false
	return func() {
		once.Do(func() {
			defer func() {
				if !valid {
					p = recover()
					panic(p)
				}
			}()
			f()
			f = nil
			valid = true
		})
		if !valid {
			panic(p)
		}
	}
}

func OnceValue[T any](f func() T) func() T {
	var result T
	g := OnceFunc(func() { result = f() })
	return func() T {
		g()
		return result
	}
}

func OnceValues[T1, T2 any](f func() (T1, T2)) func() (T1, T2) {
	var r1 T1
	var r2 T2
	g := OnceFunc(func() { r1, r2 = f() })
	return func() (T1, T2) {
		g()
		return r1, r2
	}
}
