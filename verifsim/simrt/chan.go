package simrt

import (
	"cmp"
	"fmt"
	"reflect"
	"runtime"
	"slices"
	"sort"
	"time"
)

// pre is the scheduling point before a synchronisation operation.
func pre(skip int) (*Sim, *G) {
	s, g := me()
	if s == nil || g == nil || s.dying.Load() {
		return nil, nil
	}
	s.park(g, callerPC(skip+1), nil)
	return s, g
}

// post parks again after an operation that really blocked, so that a woken
// goroutine never runs beside its waker.
func (s *Sim) post(g *G) {
	s.mu.Lock()
	g.blocked = 0
	s.mu.Unlock()
	if s.dying.Load() {
		runtime.Goexit()
	}
	s.park(g, g.site, nil)
}

func (s *Sim) markBlocked(g *G) {
	s.mu.Lock()
	g.blocked = g.site
	s.mu.Unlock()
}

// Send replaces `ch <- v`.
func Send[T any](ch chan<- T, v T) {
	s, g := pre(2)
	if s == nil {
		ch <- v
		return
	}
	select {
	case ch <- v:
		return
	default:
	}
	s.markBlocked(g)
	select {
	case ch <- v:
	case <-s.dead:
		runtime.Goexit()
	}
	s.post(g)
}

// SendAny is Send for values that need an implicit conversion to the element type.
func SendAny(ch any, v any) {
	cv := reflect.ValueOf(ch)
	vv := sendVal(cv, v)
	s, g := pre(2)
	if s == nil {
		cv.Send(vv)
		return
	}
	if cv.TrySend(vv) {
		return
	}
	s.markBlocked(g)
	i, _, _ := reflect.Select([]reflect.SelectCase{
		{Dir: reflect.SelectSend, Chan: cv, Send: vv},
		{Dir: reflect.SelectRecv, Chan: reflect.ValueOf(s.dead)},
	})
	if i == 1 {
		runtime.Goexit()
	}
	s.post(g)
}

func sendVal(ch reflect.Value, v any) reflect.Value {
	if v == nil {
		return reflect.Zero(ch.Type().Elem())
	}
	return reflect.ValueOf(v)
}

// Recv replaces `<-ch`.
func Recv[T any](ch <-chan T) T {
	v, _ := recv2(ch)
	return v
}

// Recv2 replaces `v, ok := <-ch`.
func Recv2[T any](ch <-chan T) (T, bool) {
	return recv2(ch)
}

func recv2[T any](ch <-chan T) (T, bool) {
	s, g := pre(3)
	if s == nil {
		v, ok := <-ch
		return v, ok
	}
	select {
	case v, ok := <-ch:
		return v, ok
	default:
	}
	s.markBlocked(g)
	var v T
	var ok bool
	select {
	case v, ok = <-ch:
	case <-s.dead:
		runtime.Goexit()
	}
	s.post(g)
	return v, ok
}

// Zero gives the zero value of the channel's element type (loop variable declaration).
func Zero[T any](ch <-chan T) T {
	var z T
	return z
}

// Close replaces the builtin close.
func Close[T any](ch chan<- T) {
	pre(2)
	close(ch)
}

// Sleep replaces time.Sleep.
func Sleep(d time.Duration) {
	s, g := pre(2)
	if s == nil {
		time.Sleep(d)
		return
	}
	if d <= 0 {
		return
	}
	s.markBlocked(g)
	t := time.NewTimer(d)
	select {
	case <-t.C:
	case <-s.dead:
		runtime.Goexit()
	}
	s.post(g)
}

// ---- select -----------------------------------------------------------------

type Case struct {
	ch   reflect.Value
	send bool
	val  reflect.Value
}

type Result struct {
	Idx  int // index of the chosen case, -1 for default
	recv reflect.Value
	ok   bool
}

func CaseRecv(ch any) Case { return Case{ch: reflect.ValueOf(ch)} }
func CaseSend(ch any, v any) Case {
	cv := reflect.ValueOf(ch)
	return Case{ch: cv, send: true, val: sendVal(cv, v)}
}

// Val extracts the received value with the channel's element type.
func Val[T any](ch <-chan T, r Result) T {
	var z T
	if !r.recv.IsValid() {
		return z
	}
	v, _ := r.recv.Interface().(T)
	return v
}

func Val2[T any](ch <-chan T, r Result) (T, bool) {
	return Val(ch, r), r.ok
}

func (c Case) try() (Result, bool) {
	if !c.ch.IsValid() || c.ch.IsNil() {
		return Result{}, false
	}
	if c.send {
		if c.ch.TrySend(c.val) {
			return Result{}, true
		}
		return Result{}, false
	}
	v, ok := c.ch.TryRecv()
	if !ok && !v.IsValid() {
		return Result{}, false // would block
	}
	return Result{recv: v, ok: ok}, true
}

// Select replaces the select statement. Ready cases are tried in an order
// rotated by a tape draw, so the runtime's private random choice never matters.
func Select(hasDefault bool, cases ...Case) Result {
	s, g := pre(2)
	n := len(cases)
	if s == nil {
		return rawSelect(nil, hasDefault, cases)
	}
	start := 0
	if n > 1 {
		start = s.Tape.Int(n)
	}
	for k := 0; k < n; k++ {
		i := (start + k) % n
		if r, ok := cases[i].try(); ok {
			r.Idx = i
			return r
		}
	}
	if hasDefault {
		return Result{Idx: -1}
	}
	s.markBlocked(g)
	r := rawSelect(s, false, cases)
	s.post(g)
	return r
}

func rawSelect(s *Sim, hasDefault bool, cases []Case) Result {
	sc := make([]reflect.SelectCase, 0, len(cases)+1)
	for _, c := range cases {
		if c.send {
			sc = append(sc, reflect.SelectCase{Dir: reflect.SelectSend, Chan: c.ch, Send: c.val})
		} else {
			sc = append(sc, reflect.SelectCase{Dir: reflect.SelectRecv, Chan: c.ch})
		}
	}
	deadIdx, defIdx := -1, -1
	if s != nil {
		deadIdx = len(sc)
		sc = append(sc, reflect.SelectCase{Dir: reflect.SelectRecv, Chan: reflect.ValueOf(s.dead)})
	}
	if hasDefault {
		defIdx = len(sc)
		sc = append(sc, reflect.SelectCase{Dir: reflect.SelectDefault})
	}
	i, v, ok := reflect.Select(sc)
	if i == deadIdx {
		runtime.Goexit()
	}
	if i == defIdx {
		return Result{Idx: -1}
	}
	return Result{Idx: i, recv: v, ok: ok}
}

// Forever replaces `select {}`.
func Forever() {
	s, g := pre(2)
	if s == nil {
		select {}
	}
	s.markBlocked(g)
	<-s.dead
	runtime.Goexit()
}

// ---- maps -------------------------------------------------------------------

func sortedKeys[K comparable, V any](m map[K]V) []K {
	keys := make([]K, 0, len(m))
	for k := range m {
		keys = append(keys, k)
	}
	if len(keys) < 2 {
		return keys
	}
	switch ks := any(keys).(type) {
	case []string:
		slices.Sort(ks)
	case []int:
		slices.Sort(ks)
	case []int64:
		slices.Sort(ks)
	case []uint64:
		slices.Sort(ks)
	default:
		rv := reflect.ValueOf(keys[0])
		switch rv.Kind() {
		case reflect.String:
			sort.Slice(keys, func(i, j int) bool {
				return cmp.Less(reflect.ValueOf(keys[i]).String(), reflect.ValueOf(keys[j]).String())
			})
		case reflect.Int, reflect.Int8, reflect.Int16, reflect.Int32, reflect.Int64:
			sort.Slice(keys, func(i, j int) bool { return reflect.ValueOf(keys[i]).Int() < reflect.ValueOf(keys[j]).Int() })
		default:
			if s := current.Load(); s != nil {
				s.unsorted++
			}
			sort.Slice(keys, func(i, j int) bool { return fmt.Sprint(keys[i]) < fmt.Sprint(keys[j]) })
		}
	}
	return keys
}

// SortedKeys gives a deterministic iteration order (maps whose order cannot matter).
func SortedKeys[K comparable, V any](m map[K]V) []K { return sortedKeys(m) }

// MapKeys gives a tape-permuted iteration order: Go's random map order becomes a recorded choice.
func MapKeys[K comparable, V any](m map[K]V) []K {
	keys := sortedKeys(m)
	s := current.Load()
	if s == nil || len(keys) < 2 || s.dying.Load() {
		return keys
	}
	p := s.Tape.Perm(len(keys))
	out := make([]K, len(keys))
	for i, j := range p {
		out[i] = keys[j]
	}
	return out
}

// ---- raw (non yielding) probes for oracles -----------------------------------

// TryRecvRaw is a non-blocking receive without a scheduling point (oracle use only).
func TryRecvRaw[T any](ch <-chan T) (v T, ok bool, got bool) {
	select {
	case v, ok = <-ch:
		return v, ok, true
	default:
		return v, false, false
	}
}

// IsClosedRaw reports whether a struct{} signal channel is closed, without yielding.
func IsClosedRaw(ch <-chan struct{}) bool {
	if ch == nil {
		return false
	}
	select {
	case <-ch:
		return true
	default:
		return false
	}
}
