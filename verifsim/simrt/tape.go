package simrt

import (
	"math/rand/v2"
)

// Tape is the single source of choices of one run. In record mode values come
// from generators fed by one PCG stream and are appended; in replay mode the
// recorded values are returned (modulo the bound), zeros once exhausted.
type Tape struct {
	Vals   []uint32
	pos    int
	Replay bool
	rng    *rand.Rand
	seed   uint64
	forced []uint32
}

// Force makes the first draws of a recording tape return the given values (matrix cells, injection points).
func (t *Tape) Force(p []uint32) { t.forced = p }

func SplitMix64(x uint64) uint64 {
	x += 0x9e3779b97f4a7c15
	z := x
	z = (z ^ (z >> 30)) * 0xbf58476d1ce4e5b9
	z = (z ^ (z >> 27)) * 0x94d049bb133111eb
	return z ^ (z >> 31)
}

func NewTape(seed uint64) *Tape {
	return &Tape{rng: rand.New(rand.NewPCG(seed, SplitMix64(seed))), seed: seed}
}

func ReplayTape(vals []uint32) *Tape {
	return &Tape{Vals: append([]uint32(nil), vals...), Replay: true, rng: rand.New(rand.NewPCG(1, 2))}
}

func (t *Tape) Seed() uint64 { return t.seed }
func (t *Tape) Pos() int     { return t.pos }

// Draw returns a value in [0,n). gen is consulted in record mode only.
func (t *Tape) Draw(n int, gen func() int) int {
	if n <= 1 {
		return 0
	}
	if t.Replay {
		v := 0
		if t.pos < len(t.Vals) {
			v = int(t.Vals[t.pos] % uint32(n))
		}
		t.pos++
		return v
	}
	var v int
	if t.pos < len(t.forced) {
		v = int(t.forced[t.pos] % uint32(n))
	} else {
		v = gen()
	}
	if v < 0 || v >= n {
		v = 0
	}
	t.Vals = append(t.Vals, uint32(v))
	t.pos++
	return v
}

// Int draws uniformly from [0,n).
func (t *Tape) Int(n int) int {
	return t.Draw(n, func() int { return t.rng.IntN(n) })
}

// Skewed draws from [0,n) favouring small values (geometric-ish).
func (t *Tape) Skewed(n int) int {
	return t.Draw(n, func() int {
		v := 0
		for v < n-1 && t.rng.IntN(2) == 0 {
			v++
		}
		if t.rng.IntN(4) == 0 {
			return t.rng.IntN(n)
		}
		return v
	})
}

// Chance is true with probability num/den (false is the "simple" value 0).
func (t *Tape) Chance(num, den int) bool {
	return t.Draw(2, func() int {
		if t.rng.IntN(den) < num {
			return 1
		}
		return 0
	}) == 1
}

// Pick chooses one of the options.
func Pick[T any](t *Tape, opts ...T) T { return opts[t.Int(len(opts))] }

// Rng is the unrecorded stream strategies use to *produce* recorded choices.
func (t *Tape) Rng() *rand.Rand { return t.rng }

// Perm draws a permutation of n (Fisher-Yates, each swap a recorded draw).
func (t *Tape) Perm(n int) []int {
	p := make([]int, n)
	for i := range p {
		p[i] = i
	}
	for i := n - 1; i > 0; i-- {
		j := i - t.Int(i+1) // 0 => keep
		p[i], p[j] = p[j], p[i]
	}
	return p
}

// Small draws from [0,n) but generates values below typical (n leaves room for forced/enumerated values).
func (t *Tape) Small(n, typical int) int {
	return t.Draw(n, func() int { return t.rng.IntN(typical) })
}
