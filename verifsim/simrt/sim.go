// Package simrt is the deterministic-simulation runtime that the rewritten
// watermill sources and the harness call into. Exactly one simulated goroutine
// runs between two scheduling points; which one is decided by the choice tape.
//
// Outside a running simulation (package init, ordinary use) every helper is a
// transparent pass-through to the Go construct it replaced.
package simrt

import (
	"fmt"
	"hash/fnv"
	"runtime"
	"sort"
	"strings"
	"sync"
	"sync/atomic"
	"testing/synctest"
	"time"
)

// Config of one simulated run.
type Config struct {
	Horizon  time.Duration // quiescence horizon: no timer fires within it => nothing will ever happen
	StepCap  int64         // hard bound on scheduling steps
	Fine     bool          // enable plain (statement level) yields
	// FineNum/FineDen: when FineDen > 0 the run enables plain yields with probability FineNum/FineDen,
	// decided by the first draw of the schedule tape (so forced generation prefixes are not disturbed)
	FineNum, FineDen int
	FinePkg  string        // if set: only functions whose name contains it get plain yields
	Daemons  []string      // creation-site substrings of goroutines that never end by design
	KeepLog  bool
	TraceCap int // keep at most that many trace entries (for replay files / samples)
	// ClockJumps: up to that many times per run the scheduler lets simulated time pass (up to JumpMax)
	// although goroutines are runnable: a stalled process / a clock jump. Positions and sizes come from the tape.
	ClockJumps int
	JumpMax    time.Duration
	JumpWithin int // the jumps are placed within the first JumpWithin steps
}

// G is one simulated goroutine.
type G struct {
	ID       int
	goid     int64
	Created  string // function that executed the go statement
	wake     chan struct{}
	pred     func() bool
	parked   bool
	site     uintptr
	blocked  uintptr // site of the channel operation it is blocked in (0 = none)
	exited   bool
	lazy     bool
	daemon   bool
	quiesceW bool
	relStep  int64
	Harness  bool
	Label    string
}

// PanicRec is a panic that would have crashed the process.
type PanicRec struct {
	G     int
	Where string
	Value string
	Stack string
}

type Sim struct {
	cfg  Config
	Tape *Tape

	mu    sync.Mutex
	byID  map[int64]*G
	all   []*G
	dead  chan struct{}
	dying atomic.Bool
	arrv  chan struct{}

	step    atomic.Int64
	cur     *G // goroutine released last
	start   time.Time
	lastAct time.Time

	strat Strategy

	traceHash  uint64
	switches   int64
	Trace      []TraceEnt
	pairs      map[[2]uintptr]struct{}
	Panics     []PanicRec
	Capped     bool
	Unfair     bool
	Steps      int64
	SimTime    time.Duration
	logs       []string
	endFns     []func()
	injections []*injection
	jumps      map[int64]time.Duration
	Stalls     int64
	unsorted   int64
}

type TraceEnt struct {
	G    int
	Site uintptr
}

var current atomic.Pointer[Sim]

var (
	resetMu  sync.Mutex
	resetFns []func()
)

// RegisterReset registers a function that restores process-global state (e.g. vsync pools) at the start of every simulation.
func RegisterReset(f func()) {
	resetMu.Lock()
	resetFns = append(resetFns, f)
	resetMu.Unlock()
}

// Current returns the running simulation or nil.
func Current() *Sim { return current.Load() }

func goid() int64 {
	var buf [40]byte
	n := runtime.Stack(buf[:], false)
	// "goroutine 123 ["
	var id int64
	for i := 10; i < n; i++ {
		c := buf[i]
		if c < '0' || c > '9' {
			break
		}
		id = id*10 + int64(c-'0')
	}
	return id
}

func callerPC(skip int) uintptr {
	var pcs [1]uintptr
	if runtime.Callers(skip+1, pcs[:]) == 0 {
		return 0
	}
	return pcs[0]
}

// SiteName resolves a site pc to "pkg.Func:line".
func SiteName(pc uintptr) string {
	if pc == 0 {
		return "?"
	}
	fr, _ := runtime.CallersFrames([]uintptr{pc}).Next()
	fn := fr.Function
	if i := strings.LastIndex(fn, "/"); i >= 0 {
		fn = fn[i+1:]
	}
	return fmt.Sprintf("%s:%d", fn, fr.Line)
}

func funcName(pc uintptr) string {
	if pc == 0 {
		return "?"
	}
	fr, _ := runtime.CallersFrames([]uintptr{pc}).Next()
	return fr.Function
}

// me returns the simulation and the calling goroutine's record (lazily created).
func me() (*Sim, *G) {
	s := current.Load()
	if s == nil {
		return nil, nil
	}
	id := goid()
	s.mu.Lock()
	g := s.byID[id]
	if g == nil {
		if s.dying.Load() {
			s.mu.Unlock()
			return s, nil
		}
		g = &G{ID: len(s.all), goid: id, wake: make(chan struct{}, 1), lazy: true, Created: "lazy"}
		s.all = append(s.all, g)
		s.byID[id] = g
	}
	s.mu.Unlock()
	return s, g
}

// Run executes root as goroutine 0 of a fresh simulation inside the current
// synctest bubble and schedules until quiescence or the step cap. It must be
// called from the bubble's main goroutine.
func Run(cfg Config, tape *Tape, root func(s *Sim)) *Sim {
	if cfg.Horizon == 0 {
		cfg.Horizon = time.Hour
	}
	if cfg.StepCap == 0 {
		cfg.StepCap = 200000
	}
	s := &Sim{
		cfg:   cfg,
		Tape:  tape,
		byID:  map[int64]*G{},
		dead:  make(chan struct{}),
		arrv:  make(chan struct{}, 1),
		pairs: map[[2]uintptr]struct{}{},
		start: time.Now(),
	}
	s.lastAct = s.start
	s.strat = &defaultStrategy{}
	if !current.CompareAndSwap(nil, s) {
		panic("simrt: nested simulation")
	}
	resetMu.Lock()
	fns := append([]func(){}, resetFns...)
	resetMu.Unlock()
	for _, f := range fns {
		f()
	}
	defer current.Store(nil)

	if cfg.FineDen > 0 {
		s.cfg.Fine = tape.Int(cfg.FineDen) >= cfg.FineDen-cfg.FineNum
	}
	if cfg.ClockJumps > 0 && cfg.JumpMax > 0 {
		within := cfg.JumpWithin
		if within <= 0 {
			within = 400
		}
		n := tape.Int(cfg.ClockJumps + 1)
		s.jumps = map[int64]time.Duration{}
		for i := 0; i < n; i++ {
			at := int64(1 + tape.Int(within))
			s.jumps[at] = time.Duration(1+tape.Int(1000)) * cfg.JumpMax / 1000
		}
	}
	s.spawn("root", true, func() { root(s) })
	s.loop()
	s.Steps = s.step.Load()
	s.SimTime = time.Since(s.start)
	// end-of-run oracles run in the scheduler goroutine while everybody is parked
	// or blocked; yields are disabled from here on.
	s.dying.Store(true)
	for _, f := range s.endFns {
		f()
	}
	// tear down: every parked or blocked helper sees dead and exits.
	close(s.dead)
	return s
}

// SetStrategy installs the schedule generator (record mode only matters).
func (s *Sim) SetStrategy(st Strategy) { s.strat = st }

// AtEnd registers a function evaluated by the scheduler at the end of the run
// while every goroutine is parked or blocked.
func (s *Sim) AtEnd(f func()) { s.endFns = append(s.endFns, f) }

func (s *Sim) spawn(label string, harness bool, fn func()) *G {
	pc := callerPC(3)
	s.mu.Lock()
	g := &G{ID: len(s.all), wake: make(chan struct{}, 1), Created: funcName(pc), Harness: harness, Label: label}
	for _, d := range s.cfg.Daemons {
		if strings.Contains(g.Created, d) {
			g.daemon = true
		}
	}
	s.all = append(s.all, g)
	g.parked = true // born parked; the scheduler releases it
	s.mu.Unlock()
	go func() {
		g.goid = goid()
		s.mu.Lock()
		s.byID[g.goid] = g
		s.mu.Unlock()
		defer func() {
			if r := recover(); r != nil {
				if !s.dying.Load() {
					buf := make([]byte, 4096)
					buf = buf[:runtime.Stack(buf, false)]
					s.mu.Lock()
					s.Panics = append(s.Panics, PanicRec{G: g.ID, Where: g.Created, Value: fmt.Sprint(r), Stack: string(buf)})
					s.mu.Unlock()
				}
			}
			s.mu.Lock()
			g.exited = true
			g.parked = false
			delete(s.byID, g.goid)
			s.mu.Unlock()
		}()
		s.notify()
		select {
		case <-g.wake:
		case <-s.dead:
			return
		}
		fn()
	}()
	return g
}

func (s *Sim) notify() {
	select {
	case s.arrv <- struct{}{}:
	default:
	}
}

// park blocks the calling goroutine until the scheduler releases it with pred true.
func (s *Sim) park(g *G, site uintptr, pred func() bool) {
	if s.dying.Load() {
		return
	}
	s.mu.Lock()
	g.pred = pred
	g.site = site
	g.parked = true
	s.mu.Unlock()
	s.notify()
	select {
	case <-g.wake:
	case <-s.dead:
		runtime.Goexit()
	}
}

func (s *Sim) runnable() []*G {
	var r []*G
	for _, g := range s.all {
		if g.parked && !g.exited && !g.quiesceW && (g.pred == nil || g.pred()) {
			r = append(r, g)
		}
	}
	return r
}

func (s *Sim) release(g *G) {
	st := s.step.Add(1)
	h := s.traceHash
	if h == 0 {
		h = 1469598103934665603
	}
	h ^= uint64(g.ID) + 1
	h *= 1099511628211
	h ^= uint64(g.site)
	h *= 1099511628211
	s.traceHash = h
	if s.cur != nil && s.cur != g {
		s.switches++
		s.pairs[[2]uintptr{s.cur.site, g.site}] = struct{}{}
	}
	if len(s.Trace) < s.cfg.TraceCap {
		s.Trace = append(s.Trace, TraceEnt{g.ID, g.site})
	}
	s.cur = g
	if !g.daemon {
		s.lastAct = time.Now()
	}
	g.parked = false
	g.pred = nil
	g.relStep = st
	g.wake <- struct{}{}
}

func (s *Sim) loop() {
	for {
		synctest.Wait()
		select {
		case <-s.arrv:
		default:
		}
		s.mu.Lock()
		s.fireInjections()
		r := s.runnable()
		s.mu.Unlock()
		if len(r) == 0 {
			deadline := s.lastAct.Add(s.cfg.Horizon)
			wait := time.Until(deadline)
			if wait > 0 {
				t := time.NewTimer(wait)
				select {
				case <-s.arrv:
					t.Stop()
					// an arrival at the very instant the horizon is reached (a daemon's ticker, say) makes both cases ready
					// and Go's select picks at random: treat that coincidence as "horizon reached", whichever case won
					if time.Now().Before(deadline) {
						continue
					}
				case <-t.C:
				}
				// re-check after the clock moved
				synctest.Wait()
				s.mu.Lock()
				r = s.runnable()
				s.mu.Unlock()
				if len(r) != 0 {
					// only daemons (or late arrivals exactly at the horizon) woke up
					nd := false
					for _, g := range r {
						if !g.daemon {
							nd = true
						}
					}
					if nd {
						continue
					}
				}
			}
			// quiescent
			s.mu.Lock()
			var w *G
			for _, g := range s.all {
				if g.quiesceW && g.parked && !g.exited {
					w = g
					break
				}
			}
			if w != nil {
				w.quiesceW = false
				s.lastAct = time.Now()
				s.release(w)
				s.mu.Unlock()
				continue
			}
			s.mu.Unlock()
			return
		}
		if s.step.Load() >= s.cfg.StepCap {
			s.Capped = true
			return
		}
		// only daemons runnable and a quiescence waiter present, horizon passed => quiescent
		if d, ok := s.jumps[s.step.Load()+1]; ok {
			// the whole process stalls: simulated time passes although goroutines are runnable
			delete(s.jumps, s.step.Load()+1)
			s.Stalls++
			time.Sleep(d)
			continue
		}
		s.mu.Lock()
		g := s.pick(r)
		s.release(g)
		s.mu.Unlock()
	}
}

// pick orders the runnable set canonically (the goroutine that ran last first,
// then ascending id) and lets the tape decide.
func (s *Sim) pick(r []*G) *G {
	if len(r) == 1 {
		return r[0]
	}
	sort.Slice(r, func(i, j int) bool {
		if (r[i] == s.cur) != (r[j] == s.cur) {
			return r[i] == s.cur
		}
		return r[i].ID < r[j].ID
	})
	idx := s.Tape.Draw(len(r), func() int { return s.strat.Pick(s, r) })
	return r[idx]
}

// Yield is an unconditional scheduling point.
func Yield() {
	s, g := me()
	if s == nil || g == nil {
		return
	}
	s.park(g, callerPC(2), nil)
}

// Park is the blocking primitive of vsync: returns once scheduled with pred true.
func Park(pred func() bool) {
	s, g := me()
	if s == nil || g == nil {
		// outside a simulation nothing can change the predicate but other real goroutines
		for pred != nil && !pred() {
			runtime.Gosched()
		}
		return
	}
	s.park(g, callerPC(3), pred)
}

// Active reports whether the caller runs inside a simulation that is not being torn down.
func Active() bool {
	s := current.Load()
	return s != nil && !s.dying.Load()
}

// Dying reports whether the simulation is being torn down (vsync relaxes its checks then).
func Dying() bool {
	s := current.Load()
	return s != nil && s.dying.Load()
}

// P is a plain, statement-level yield inserted by the rewriter; a no-op unless
// the run enabled fine-grain scheduling.
func P() {
	s := current.Load()
	if s == nil || !s.cfg.Fine || s.dying.Load() {
		return
	}
	pc := callerPC(2)
	if s.cfg.FinePkg != "" && !strings.Contains(funcName(pc), s.cfg.FinePkg) {
		return
	}
	_, g := me()
	if g == nil {
		return
	}
	s.park(g, pc, nil)
}

// Go replaces the go statement.
func Go(fn func()) {
	s := current.Load()
	if s == nil || s.dying.Load() {
		go fn()
		return
	}
	s.spawn("", false, fn)
}

// GoNamed starts a labelled harness goroutine.
func (s *Sim) GoNamed(label string, fn func()) *G { return s.spawn(label, true, fn) }

// Quiesce parks the caller until nothing else can run and no timer fires within the horizon.
func (s *Sim) Quiesce() {
	_, g := me()
	if g == nil {
		return
	}
	s.mu.Lock()
	g.quiesceW = true
	s.mu.Unlock()
	s.park(g, callerPC(2), nil)
}

// Step is the number of scheduling decisions taken so far.
func (s *Sim) Step() int64 { return s.step.Load() }

// Now returns simulated time since the start of the run.
func (s *Sim) Now() time.Duration { return time.Since(s.start) }

func (s *Sim) Logf(format string, a ...any) {
	if !s.cfg.KeepLog {
		return
	}
	s.mu.Lock()
	s.logs = append(s.logs, fmt.Sprintf("%6d %s", s.step.Load(), fmt.Sprintf(format, a...)))
	s.mu.Unlock()
}

func (s *Sim) Logs() []string { return s.logs }

func (s *Sim) TraceHash() uint64 { return s.traceHash }
func (s *Sim) Switches() int64   { return s.switches }
func (s *Sim) SwitchPairs() int  { return len(s.pairs) }
func (s *Sim) PairKeys() []uint64 {
	out := make([]uint64, 0, len(s.pairs))
	for k := range s.pairs {
		h := fnv.New64a()
		fmt.Fprintf(h, "%d-%d", k[0], k[1])
		out = append(out, h.Sum64())
	}
	return out
}

// GInfo describes a goroutine at the end of a run.
type GInfo struct {
	ID      int
	Created string
	Label   string
	State   string // exited | parked | blocked | running
	Waiting bool   // blocked in a channel operation, or parked on a condition that does not hold: cannot proceed by itself
	Site    string
	Harness bool
	Daemon  bool
	Lazy    bool
}

// Goroutines lists every goroutine the run created. Call from AtEnd or after Run.
func (s *Sim) Goroutines() []GInfo {
	s.mu.Lock()
	defer s.mu.Unlock()
	var out []GInfo
	for _, g := range s.all {
		gi := GInfo{ID: g.ID, Created: g.Created, Label: g.Label, Harness: g.Harness, Daemon: g.daemon, Lazy: g.lazy}
		switch {
		case g.exited:
			gi.State = "exited"
		case g.parked:
			gi.State = "parked"
			gi.Waiting = g.pred != nil && !g.pred()
			gi.Site = SiteName(g.site)
		case g.blocked != 0:
			gi.State = "blocked"
			gi.Waiting = true
			gi.Site = SiteName(g.blocked)
		default:
			gi.State = "running"
		}
		out = append(out, gi)
	}
	return out
}

// TraceStrings renders the kept trace prefix.
func (s *Sim) TraceStrings() []string {
	out := make([]string, len(s.Trace))
	for i, e := range s.Trace {
		out[i] = fmt.Sprintf("g%d@%s", e.G, SiteName(e.Site))
	}
	return out
}

// ---- point injection -------------------------------------------------------

type injection struct {
	atStep int64
	fn     func()
	label  string
	done   bool
}

// InjectAt makes the scheduler start fn as a new harness goroutine immediately
// before scheduling step number atStep is taken (crash-point enumeration).
func (s *Sim) InjectAt(atStep int64, label string, fn func()) {
	s.mu.Lock()
	s.injections = append(s.injections, &injection{atStep: atStep, fn: fn, label: label})
	s.mu.Unlock()
}

// fireInjections is called with s.mu held.
func (s *Sim) fireInjections() {
	for _, in := range s.injections {
		if !in.done && s.step.Load() >= in.atStep {
			in.done = true
			s.mu.Unlock()
			g := s.spawn(in.label, true, in.fn)
			g.Label = in.label
			synctest.Wait()
			s.mu.Lock()
			// run the injected action first: make it the "current" goroutine so that tape value 0 continues it
			s.cur = g
		}
	}
}
