package simrt

// Strategy produces scheduling choices in record mode. r is in canonical order:
// r[0] is the goroutine that ran last if it is still runnable, the rest ascend
// by id. The returned index is what the tape records, so replay needs no strategy.
type Strategy interface {
	Pick(s *Sim, r []*G) int
}

// defaultStrategy: run to block, then lowest id.
type defaultStrategy struct{}

func (defaultStrategy) Pick(*Sim, []*G) int { return 0 }

// RandomWalk picks uniformly.
type RandomWalk struct{}

func (RandomWalk) Pick(s *Sim, r []*G) int { return s.Tape.Rng().IntN(len(r)) }

// RunToBlock continues the current goroutine, preempting with probability 1/Den.
type RunToBlock struct {
	Den    int
	Budget int // max forced preemptions (<=0: unlimited)
	used   int
}

func (p *RunToBlock) Pick(s *Sim, r []*G) int {
	if r[0] != s.cur {
		return s.Tape.Rng().IntN(len(r))
	}
	if (p.Budget <= 0 || p.used < p.Budget) && s.Tape.Rng().IntN(p.Den) == 0 {
		p.used++
		return 1 + s.Tape.Rng().IntN(len(r)-1)
	}
	return 0
}

// PCT: random priorities with D priority change points.
type PCT struct {
	D       int
	Horizon int64 // expected number of steps
	prio    map[int]int
	change  map[int64]bool
	low     int
}

func (p *PCT) Pick(s *Sim, r []*G) int {
	rng := s.Tape.Rng()
	if p.prio == nil {
		p.prio = map[int]int{}
		p.change = map[int64]bool{}
		h := p.Horizon
		if h <= 0 {
			h = 500
		}
		for i := 0; i < p.D; i++ {
			p.change[rng.Int64N(h)] = true
		}
	}
	best := 0
	for i, g := range r {
		if _, ok := p.prio[g.ID]; !ok {
			p.prio[g.ID] = 1000 + rng.IntN(1000000)
		}
		if p.prio[g.ID] > p.prio[r[best].ID] {
			best = i
		}
	}
	if p.change[s.step.Load()] {
		p.low--
		p.prio[r[best].ID] = p.low
		best = 0
		for i, g := range r {
			if p.prio[g.ID] > p.prio[r[best].ID] {
				best = i
			}
		}
	}
	return best
}

// RoundRobin is the fair strategy used to decide bounded liveness: the
// runnable goroutine that ran least recently goes next.
type RoundRobin struct {
	last map[int]int64
}

func (p *RoundRobin) Pick(s *Sim, r []*G) int {
	if p.last == nil {
		p.last = map[int]int64{}
	}
	best := 0
	for i, g := range r {
		if p.last[g.ID] < p.last[r[best].ID] {
			best = i
		}
	}
	p.last[r[best].ID] = s.step.Load() + 1
	return best
}

// SiteDelay holds back goroutines parked at one of the chosen sites while
// anything else can run (at most Max times per site visit), random otherwise.
type SiteDelay struct {
	Sites map[uintptr]bool
	// Salt/Den: when Sites is nil a pseudo-random subset of all sites (1 in Den, chosen by Salt) is delayed
	Salt  uint64
	Den   int
	Max   int
	held  map[int]int
	Inner Strategy
}

func (p *SiteDelay) delayed(site uintptr) bool {
	if p.Sites != nil {
		return p.Sites[site]
	}
	if p.Den <= 0 {
		return false
	}
	return SplitMix64(uint64(site)^p.Salt)%uint64(p.Den) == 0
}

func (p *SiteDelay) Pick(s *Sim, r []*G) int {
	if p.held == nil {
		p.held = map[int]int{}
	}
	var free []int
	for i, g := range r {
		if p.delayed(g.site) && p.held[g.ID] < p.Max {
			continue
		}
		free = append(free, i)
	}
	if len(free) == 0 {
		for _, g := range r {
			p.held[g.ID] = 0
		}
		return s.Tape.Rng().IntN(len(r))
	}
	for _, g := range r {
		if p.delayed(g.site) {
			p.held[g.ID]++
		}
	}
	if len(free) == len(r) && p.Inner != nil {
		return p.Inner.Pick(s, r)
	}
	return free[s.Tape.Rng().IntN(len(free))]
}

// SeenSites returns the distinct yield sites of the kept trace (for SiteDelay).
func (s *Sim) SeenSites() []uintptr {
	seen := map[uintptr]bool{}
	var out []uintptr
	for _, e := range s.Trace {
		if !seen[e.Site] {
			seen[e.Site] = true
			out = append(out, e.Site)
		}
	}
	return out
}
