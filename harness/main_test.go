//go:debug randseednop=0
package verifharness

import (
	"os/exec"
	"encoding/json"
	"fmt"
	"hash/fnv"
	mrand "math/rand"
	"os"
	"sort"
	"strconv"
	"strings"
	"testing"
	"testing/synctest"
	"time"

	"github.com/ThreeDotsLabs/watermill/verifsim/simrt"

	"verifharness/scen"
)

// ---- one execution -----------------------------------------------------------

type Exec struct {
	Run      *scen.Run
	Steps    int64
	SimTime  time.Duration
	Hash     uint64
	Switches int64
	Pairs    []uint64
	Capped   bool
	Unclean  string
	Strategy string
	Gen      []uint32
	Sched    []uint32
	Logs     []string
	Trace    []string
	Gor      []simrt.GInfo
}

type execOpt struct {
	fair    bool
	keepLog bool
	tier    string
}

func libraryPanic(stack string) bool {
	// first frame after the panic() frames decides who is to blame
	lines := strings.Split(stack, "\n")
	seenPanic := false
	for _, l := range lines {
		if strings.HasPrefix(l, "panic(") {
			seenPanic = true
			continue
		}
		if !seenPanic || strings.HasPrefix(l, "\t") || strings.HasPrefix(l, "runtime.") {
			continue
		}
		if strings.Contains(l, "/verifsim/") {
			continue
		}
		return strings.Contains(l, "github.com/ThreeDotsLabs/watermill/")
	}
	return false
}

func execute(t *testing.T, sc *scen.Scenario, gen, sched *simrt.Tape, opt execOpt) (ex *Exec) {
	ex = &Exec{}
	r := &scen.Run{T: gen, Prop: sc.Prop, Scen: sc.Name, Tier: opt.tier, Faults: map[string]int{}, Probes: map[string]int{}, Fair: opt.fair}
	ex.Run = r
	mrand.Seed(1)
	func() {
		defer func() {
			if x := recover(); x != nil {
				ex.Unclean = fmt.Sprint(x)
			}
		}()
		synctest.Test(t, func(t *testing.T) {
			cfg := scen.BaseConfig()
			if sc.Setup != nil {
				cfg = sc.Setup(r)
			}
			cfg.KeepLog = opt.keepLog
			s := simrt.Run(cfg, sched, func(s *simrt.Sim) {
				r.Sim = s
				ex.Strategy = r.PickStrategy()
				sc.Body(r)
			})
			ex.Steps, ex.SimTime, ex.Hash, ex.Switches = s.Steps, s.SimTime, s.TraceHash(), s.Switches()
			ex.Pairs = s.PairKeys()
			ex.Capped = s.Capped
			ex.Logs = s.Logs()
			ex.Trace = s.TraceStrings()
			ex.Gor = s.Goroutines()
			if s.Stalls > 0 {
				r.Faults["clock-jump"] += int(s.Stalls)
			}
			for _, p := range s.Panics {
				lib := libraryPanic(p.Stack) || (strings.Contains(p.Where, "github.com/ThreeDotsLabs/watermill/") && !strings.Contains(p.Where, "verifsim"))
				if lib {
					v := p.Value
					if len(v) > 120 {
						v = v[:120]
					}
					r.Fail(sc.Prop+".PANIC", "panic in library code: "+v, "goroutine g%d created by %s panicked: %s\n%s", p.G, p.Where, p.Value, p.Stack)
				} else if r.HarnessErr == "" {
					r.HarnessErr = fmt.Sprintf("harness goroutine g%d (%s) panicked: %s\n%s", p.G, p.Where, p.Value, p.Stack)
				}
			}
		})
	}()
	ex.Gen = append([]uint32(nil), gen.Vals...)
	ex.Sched = append([]uint32(nil), sched.Vals...)
	return ex
}

// ---- replay files --------------------------------------------------------------

type Replay struct {
	Property string          `json:"property"`
	Scenario string          `json:"scenario"`
	Seed     uint64          `json:"seed"`
	Fair     bool            `json:"fair"`
	Gen      []uint32        `json:"gen_tape"`
	Sched    []uint32        `json:"sched_tape"`
	Expect   scen.Violation  `json:"expect"`
	Desc     []string        `json:"scenario_description,omitempty"`
	Faults   map[string]int  `json:"faults_fired,omitempty"`
	Trace    []string        `json:"schedule_trace,omitempty"`
	Log      []string        `json:"event_log,omitempty"`
	Shrunk   map[string]int  `json:"minimisation,omitempty"`
	Params   map[string]int  `json:"params,omitempty"`
}

func replayExec(t *testing.T, sc *scen.Scenario, gen, sched []uint32, fair, keepLog bool, tier string) *Exec {
	return execute(t, sc, simrt.ReplayTape(gen), simrt.ReplayTape(sched), execOpt{fair: fair, keepLog: keepLog, tier: tier})
}

func hasViolation(ex *Exec, rule, sig string) *scen.Violation {
	for i := range ex.Run.Viol {
		v := &ex.Run.Viol[i]
		if v.Rule == rule && v.Sig == sig {
			return v
		}
	}
	return nil
}

// shrink minimises (gen, sched) while the same rule+signature is violated.
func shrink(t *testing.T, sc *scen.Scenario, gen, sched []uint32, fair bool, rule, sig string, tier string, fixedGen int) ([]uint32, []uint32, int) {
	deadline := time.Now().Add(25 * time.Second)
	tries := 0
	test := func(g, s []uint32) bool {
		if time.Now().After(deadline) || tries > 1500 {
			return false
		}
		tries++
		ex := replayExec(t, sc, g, s, fair, false, tier)
		if fair && ex.Capped {
			// liveness violations are detected by the caller's rule
			return rule == sc.Prop+".LIVE"
		}
		return hasViolation(ex, rule, sig) != nil
	}
	trim := func(x []uint32) []uint32 {
		for len(x) > 0 && x[len(x)-1] == 0 {
			x = x[:len(x)-1]
		}
		return x
	}
	cp := func(x []uint32) []uint32 { return append([]uint32(nil), x...) }
	// 1. schedule: try none at all
	if test(gen, nil) {
		sched = nil
	}
	pass := func(x []uint32, lo int, other []uint32, isGen bool) []uint32 {
		try := func(c []uint32) bool {
			if isGen {
				return test(c, other)
			}
			return test(other, c)
		}
		// truncate (tail => zeros)
		for n := len(x) / 2; n >= 1; n /= 2 {
			for len(x)-n >= lo {
				c := cp(x[:len(x)-n])
				if try(c) {
					x = c
				} else {
					break
				}
			}
		}
		// delete blocks / zero blocks
		for b := len(x) / 2; b >= 1; b /= 2 {
			for i := lo; i+b <= len(x); {
				c := append(cp(x[:i]), x[i+b:]...)
				if try(c) {
					x = c
					continue
				}
				allZero := true
				for _, v := range x[i : i+b] {
					if v != 0 {
						allZero = false
					}
				}
				if !allZero {
					c = cp(x)
					for j := i; j < i+b; j++ {
						c[j] = 0
					}
					if try(c) {
						x = c
					}
				}
				i += b
			}
		}
		// lower single values
		for i := lo; i < len(x); i++ {
			for x[i] > 0 {
				c := cp(x)
				c[i] = x[i] / 2
				if try(c) {
					x = c
					continue
				}
				c[i] = x[i] - 1
				if c[i] != x[i]/2 && try(c) {
					x = c
					continue
				}
				break
			}
		}
		return trim(x)
	}
	for round := 0; round < 3; round++ {
		g0, s0 := len(gen), len(sched)
		sched = pass(sched, 0, gen, false)
		gen = pass(gen, fixedGen, sched, true)
		if len(gen) == g0 && len(sched) == s0 {
			break
		}
	}
	return gen, sched, tries
}

// ---- worker ------------------------------------------------------------------

type Sample struct {
	Scenario string         `json:"scenario"`
	Seed     uint64         `json:"seed"`
	Strategy string         `json:"strategy"`
	Desc     []string       `json:"description"`
	Faults   map[string]int `json:"faults_fired"`
	Steps    int64          `json:"steps"`
	SimTime  string         `json:"simulated_time"`
	Trace    []string       `json:"first_steps"`
}

type WorkerOut struct {
	Worker       int                 `json:"worker"`
	Runs         int64               `json:"runs"`
	EnumRuns     int64               `json:"enum_runs"`
	EnumCells    int64               `json:"enum_cells"`
	EnumDone     bool                `json:"enum_done"`
	InjectBases  int64               `json:"inject_bases"`
	InjectPoints int64               `json:"inject_points"`
	InjectPairs  int64               `json:"inject_pairs"`
	Steps        int64               `json:"steps"`
	SimTimeNs    int64               `json:"sim_time_ns"`
	Switches     int64               `json:"switches"`
	Capped       int64               `json:"capped_unfair"`
	Unclean      int64               `json:"unclean_bubble_end"`
	Faults       map[string]int64    `json:"faults"`
	Probes       map[string]int64    `json:"probes"`
	Strategies   map[string]int64    `json:"strategies"`
	Scenarios    map[string]int64    `json:"scenarios"`
	Hashes       []uint64            `json:"hashes"`
	NontrivHash  []uint64            `json:"nontrivial_hashes"`
	Pairs        []uint64            `json:"pairs"`
	Samples      []Sample            `json:"samples"`
	Violations   []ViolationOut      `json:"violations"`
	HarnessErr   string              `json:"harness_error"`
	Nondet       string              `json:"nondeterminism"`
	NondetCount  int64               `json:"nondeterminism_count"`
	DetChecked   int64               `json:"determinism_rechecked"`
	WallS        float64             `json:"wall_s"`
	Real         []string            `json:"real"`
	Stubs        []string            `json:"stubs"`
}

type ViolationOut struct {
	scen.Violation
	Scenario string `json:"scenario"`
	Seed     uint64 `json:"seed"`
	Replay   string `json:"replay"`
	Reproduced bool `json:"reproduced"`
	// FreshFailed: the replay file did not reproduce in a fresh process (the run depended on state that earlier runs of
	// this worker process left behind in the library, e.g. a package-level cache); the worker went on searching
	FreshFailed bool `json:"fresh_failed,omitempty"`
}

func envInt(name string, def int64) int64 {
	if v := os.Getenv(name); v != "" {
		if n, err := strconv.ParseInt(v, 10, 64); err == nil {
			return n
		}
	}
	return def
}

type worker struct {
	t        *testing.T
	prop     string
	tier     string
	base     uint64
	idx, n   int
	out      *WorkerOut
	hashes   map[uint64]struct{}
	nontriv  map[uint64]struct{}
	pairs    map[uint64]struct{}
	known    []knownFinding
	replays  string
	stop     bool
	detEvery int64
	// unconfirmed counts violations whose replay file did not reproduce in a fresh process
	unconfirmed int
}

type knownFinding struct {
	Property string `json:"property"`
	Rule     string `json:"rule"`
	Sig      string `json:"sig"`
	Status   string `json:"status"`
}

func (w *worker) isKnown(v scen.Violation) bool {
	for _, k := range w.known {
		if k.Status == "open" && k.Property == v.Prop && k.Rule == v.Rule && k.Sig == v.Sig {
			return true
		}
	}
	return false
}

func hashTape(x []uint32) uint64 {
	h := fnv.New64a()
	var b [4]byte
	for _, v := range x {
		b[0], b[1], b[2], b[3] = byte(v), byte(v>>8), byte(v>>16), byte(v>>24)
		h.Write(b[:])
	}
	return h.Sum64()
}

// one runs a single execution (plus fair re-run / shrinking when needed) and accounts for it.
func (w *worker) one(sc *scen.Scenario, seed uint64, prefix []uint32) *Exec {
	g := newPrefixedTape(seed, prefix)
	sched := simrt.NewTape(simrt.SplitMix64(seed ^ 0x5ca1ab1e))
	ex := execute(w.t, sc, g, sched, execOpt{tier: w.tier})
	w.account(sc, seed, ex)
	fair := false
	if ex.Capped {
		// the end-of-run oracles presume quiescence: what they say about a run that was cut off by the step cap is void
		kept := ex.Run.Viol[:0]
		for _, v := range ex.Run.Viol {
			if !v.AtEnd {
				kept = append(kept, v)
			}
		}
		ex.Run.Viol = kept
	}
	if ex.Capped && len(ex.Run.Viol) == 0 && ex.Run.HarnessErr == "" {
		// unfair schedule or real livelock? decide under the fair schedule with the same program
		w.out.Capped++
		fsched := simrt.NewTape(simrt.SplitMix64(seed ^ 0xfa1f))
		fex := execute(w.t, sc, simrt.ReplayTape(ex.Gen), fsched, execOpt{fair: true, tier: w.tier})
		if fex.Capped {
			fex.Run.Fail(sc.Prop+".LIVE", "no quiescence within the step cap under the fair round-robin schedule",
				"run did not quiesce in %d steps under fair scheduling (scenario %s)", fex.Steps, sc.Name)
		}
		if len(fex.Run.Viol) > 0 {
			ex = fex
			fair = true
		}
	}
	if ex.Run.HarnessErr != "" && w.out.HarnessErr == "" {
		w.out.HarnessErr = fmt.Sprintf("scenario %s seed %d: %s", sc.Name, seed, ex.Run.HarnessErr)
		w.stop = true
		return ex
	}
	for _, v := range ex.Run.Viol {
		if w.isKnown(v) {
			w.out.Probes["known-finding:"+v.Rule+":"+v.Sig]++
			continue
		}
		if w.report(sc, seed, ex, v, fair, len(prefix)) || w.unconfirmed >= 4 {
			w.stop = true
		}
		break
	}
	return ex
}

func newPrefixedTape(seed uint64, prefix []uint32) *simrt.Tape {
	t := simrt.NewTape(seed)
	if len(prefix) > 0 {
		t.Force(prefix)
	}
	return t
}

func (w *worker) account(sc *scen.Scenario, seed uint64, ex *Exec) {
	o := w.out
	o.Runs++
	o.Steps += ex.Steps
	o.SimTimeNs += int64(ex.SimTime)
	o.Switches += ex.Switches
	if ex.Unclean != "" {
		o.Unclean++
		if o.Probes == nil {
			o.Probes = map[string]int64{}
		}
	}
	nf := 0
	for k, v := range ex.Run.Faults {
		o.Faults[k] += int64(v)
		nf += v
	}
	for k, v := range ex.Run.Probes {
		o.Probes[k] += int64(v)
	}
	o.Strategies[ex.Strategy]++
	o.Scenarios[sc.Name]++
	h := ex.Hash ^ hashTape(ex.Gen)*1099511628211
	if len(w.hashes) < 400000 {
		w.hashes[h] = struct{}{}
	}
	if (nf > 0 || ex.Switches >= 2) && len(w.nontriv) < 400000 {
		w.nontriv[h] = struct{}{}
	}
	for _, p := range ex.Pairs {
		w.pairs[p] = struct{}{}
	}
	if len(o.Samples) < 3 && (nf > 0 || o.Runs > 2) {
		tr := ex.Trace
		if len(tr) > 14 {
			tr = tr[:14]
		}
		o.Samples = append(o.Samples, Sample{Scenario: sc.Name, Seed: seed, Strategy: ex.Strategy, Desc: ex.Run.Desc,
			Faults: ex.Run.Faults, Steps: ex.Steps, SimTime: ex.SimTime.String(), Trace: tr})
	}
	// determinism spot check
	if w.detEvery > 0 && o.Runs%w.detEvery == 0 && !ex.Capped {
		re := replayExec(w.t, sc, ex.Gen, ex.Sched, false, false, w.tier)
		o.DetChecked++
		if re.Hash != ex.Hash || re.Steps != ex.Steps || len(re.Run.Viol) != len(ex.Run.Viol) {
			// which of the two was the odd one? a second re-execution tells (the driver tolerates a very small number of
			// such runs and says so; a violation is only ever reported when it reproduces from its tapes in a fresh process)
			re2 := replayExec(w.t, sc, ex.Gen, ex.Sched, false, false, w.tier)
			odd := "all three executions differ"
			switch {
			case re2.Hash == re.Hash && re2.Steps == re.Steps:
				odd = "the two re-executions agree, the first execution was the odd one"
			case re2.Hash == ex.Hash && re2.Steps == ex.Steps:
				odd = "the second re-execution agrees with the first execution, the first re-execution was the odd one"
			}
			o.NondetCount++
			if o.Nondet == "" {
				o.Nondet = fmt.Sprintf("scenario %s seed %d: replay diverged (steps %d vs %d, hash %x vs %x; %s)", sc.Name, seed, ex.Steps, re.Steps, ex.Hash, re.Hash, odd)
			}
		}
	}
}

// freshReplay runs the replay file in a fresh process of this binary and tells whether the violation reproduced there.
func freshReplay(prop, path string) bool {
	cmd := exec.Command(os.Args[0], "-test.run", "^TestSim$", "-test.timeout", "0")
	cmd.Env = append(os.Environ(), "VERIF_PROP="+prop, "VERIF_REPLAY="+path, "VERIF_REPLAY_QUIET=1", "GOMAXPROCS=2")
	out, _ := cmd.CombinedOutput()
	return strings.Contains(string(out), "REPLAY-REPRODUCED")
}

// report minimises, writes the replay file and confirms it in a fresh process; it returns false when the violation could
// not be confirmed there (the worker then goes on searching).
func (w *worker) report(sc *scen.Scenario, seed uint64, ex *Exec, v scen.Violation, fair bool, fixedGen int) bool {
	gen, sched := ex.Gen, ex.Sched
	g0, s0 := len(gen), len(sched)
	mg, ms, tries := shrink(w.t, sc, gen, sched, fair, v.Rule, v.Sig, w.tier, fixedGen)
	// final replay with log
	fin := replayExec(w.t, sc, mg, ms, fair, true, w.tier)
	fv := hasViolation(fin, v.Rule, v.Sig)
	if fair && fin.Capped && v.Rule == sc.Prop+".LIVE" {
		fv = &v
	}
	if fv == nil {
		// minimised tape does not reproduce: fall back to the original
		mg, ms = gen, sched
		fin = replayExec(w.t, sc, mg, ms, fair, true, w.tier)
		fv = hasViolation(fin, v.Rule, v.Sig)
		if fair && fin.Capped && v.Rule == sc.Prop+".LIVE" {
			fv = &v
		}
	}
	vo := ViolationOut{Violation: v, Scenario: sc.Name, Seed: seed, Reproduced: fv != nil}
	if fv != nil {
		vo.Violation = *fv
	}
	rp := Replay{Property: sc.Prop, Scenario: sc.Name, Seed: seed, Fair: fair, Gen: mg, Sched: ms, Expect: vo.Violation,
		Desc: fin.Run.Desc, Faults: fin.Run.Faults, Trace: fin.Trace, Log: fin.Logs, Params: fin.Run.Params,
		Shrunk: map[string]int{"gen_before": g0, "gen_after": len(mg), "sched_before": s0, "sched_after": len(ms), "executions": tries}}
	rp.Expect.Detail = short(rp.Expect.Detail, 2000)
	ruleFile := strings.NewReplacer(".", "_", "/", "_").Replace(v.Rule)
	path := fmt.Sprintf("%s/%s-%s-%d.json", w.replays, sc.Prop, ruleFile, seed)
	b, _ := json.MarshalIndent(rp, "", " ")
	if err := os.WriteFile(path, b, 0o644); err != nil {
		w.out.HarnessErr = "cannot write replay file: " + err.Error()
	}
	vo.Replay = path
	if vo.Reproduced && !freshReplay(sc.Prop, path) {
		// perhaps the minimisation (done in this process, with whatever state earlier runs left in the library) cut
		// away what a fresh process needs: try the unminimised tapes
		rp.Gen, rp.Sched = gen, sched
		rp.Shrunk = map[string]int{"gen_before": g0, "gen_after": g0, "sched_before": s0, "sched_after": s0, "executions": tries}
		b, _ = json.MarshalIndent(rp, "", " ")
		os.WriteFile(path, b, 0o644)
		if !freshReplay(sc.Prop, path) {
			vo.FreshFailed = true
			w.unconfirmed++
		}
	}
	w.out.Violations = append(w.out.Violations, vo)
	return vo.Reproduced && !vo.FreshFailed
}

func short(s string, n int) string {
	if len(s) > n {
		return s[:n] + "…"
	}
	return s
}

func (w *worker) pickScenario(scs []*scen.Scenario, seed uint64) *scen.Scenario {
	tot := 0
	for _, s := range scs {
		wt := s.Weight
		if wt == 0 {
			wt = 1
		}
		if wt < 0 {
			wt = 0
		}
		tot += wt
	}
	if tot == 0 {
		return nil
	}
	x := int(simrt.SplitMix64(seed^0x51ce) % uint64(tot))
	for _, s := range scs {
		wt := s.Weight
		if wt == 0 {
			wt = 1
		}
		if wt < 0 {
			wt = 0
		}
		if x < wt {
			return s
		}
		x -= wt
	}
	return scs[0]
}

func TestSim(t *testing.T) {
	prop := os.Getenv("VERIF_PROP")
	if prop == "" {
		t.Skip("VERIF_PROP not set")
	}
	if rp := os.Getenv("VERIF_REPLAY"); rp != "" {
		doReplay(t, rp)
		return
	}
	tier := os.Getenv("VERIF_TIER")
	if tier == "" {
		tier = "quick"
	}
	w := &worker{t: t, prop: prop, tier: tier,
		base: uint64(envInt("VERIF_SEED", 1)), idx: int(envInt("VERIF_WORKER", 0)), n: int(envInt("VERIF_WORKERS", 1)),
		hashes: map[uint64]struct{}{}, nontriv: map[uint64]struct{}{}, pairs: map[uint64]struct{}{},
		replays: os.Getenv("VERIF_REPLAY_DIR"), detEvery: envInt("VERIF_DET_EVERY", 0)}
	if w.replays == "" {
		w.replays = "."
	}
	if kf := os.Getenv("VERIF_KNOWN"); kf != "" {
		if b, err := os.ReadFile(kf); err == nil {
			var doc struct {
				Findings []knownFinding `json:"findings"`
			}
			if err := json.Unmarshal(b, &doc); err != nil {
				t.Fatalf("known findings file: %v", err)
			}
			w.known = doc.Findings
		}
	}
	w.out = &WorkerOut{Worker: w.idx, Faults: map[string]int64{}, Probes: map[string]int64{}, Strategies: map[string]int64{}, Scenarios: map[string]int64{}}
	scs := scen.ForProp(prop)
	if only := os.Getenv("VERIF_SCENARIO"); only != "" {
		var f []*scen.Scenario
		for _, s := range scs {
			if s.Name == only {
				f = append(f, s)
			}
		}
		scs = f
	}
	if len(scs) == 0 {
		t.Fatalf("no scenario for property %s", prop)
	}
	seenR, seenS := map[string]bool{}, map[string]bool{}
	for _, s := range scs {
		for _, x := range s.Real {
			if !seenR[x] {
				seenR[x] = true
				w.out.Real = append(w.out.Real, x)
			}
		}
		for _, x := range s.Stubs {
			if !seenS[x] {
				seenS[x] = true
				w.out.Stubs = append(w.out.Stubs, x)
			}
		}
	}
	start := time.Now()
	budget := time.Duration(envInt("VERIF_BUDGET_S", 20)) * time.Second
	enumBudget := time.Duration(envInt("VERIF_ENUM_BUDGET_S", 600)) * time.Second
	maxRuns := envInt("VERIF_MAXRUNS", 1<<40)
	reps := int(envInt("VERIF_ENUM_REPS", 1))
	bases := int(envInt("VERIF_INJECT_BASES", 6))

	// ---- phase 1: complete enumerations
	w.out.EnumDone = true
	item := 0
	for _, sc := range scs {
		if sc.Prefixes == nil {
			continue
		}
		cells := sc.Prefixes(tier)
		w.out.EnumCells += int64(len(cells))
		for ci, pre := range cells {
			for rep := 0; rep < reps; rep++ {
				mine := item%w.n == w.idx
				item++
				if !mine || w.stop {
					continue
				}
				if time.Since(start) > enumBudget {
					w.out.EnumDone = false
					continue
				}
				seed := simrt.SplitMix64(w.base*1000003 + uint64(ci)*7919 + uint64(rep)*104729 + hashStr(sc.Name))
				w.one(sc, seed, pre)
				w.out.EnumRuns++
			}
		}
	}
	// ---- phase 2: point injection over base runs
	for _, sc := range scs {
		if !sc.PointInject {
			continue
		}
		for b := 0; b < bases; b++ {
			mine := item%w.n == w.idx
			item++
			if !mine || w.stop {
				continue
			}
			if time.Since(start) > enumBudget {
				w.out.EnumDone = false
				continue
			}
			seed := simrt.SplitMix64(w.base*1000003 + uint64(b)*15485863 + hashStr(sc.Name))
			baseEx := w.one(sc, seed, []uint32{0})
			w.out.InjectBases++
			n := baseEx.Steps
			if n > 3000 {
				n = 3000
			}
			for i := int64(1); i <= n && !w.stop; i++ {
				if time.Since(start) > enumBudget {
					w.out.EnumDone = false
					break
				}
				w.one(sc, seed, []uint32{uint32(i)})
				w.out.InjectPoints++
			}
			// pairwise enumeration on small base runs (thorough tier)
			if sc.PairPrefix != nil && tier == "thorough" && n <= envInt("VERIF_PAIR_MAX_STEPS", 110) && int64(b) < envInt("VERIF_PAIR_BASES", 16) {
				for _, kk := range sc.PairKinds {
					for i := int64(1); i <= n && !w.stop; i++ {
						for j := i + 1; j <= n+1 && !w.stop; j++ {
							if time.Since(start) > enumBudget {
								w.out.EnumDone = false
								break
							}
							w.one(sc, seed, sc.PairPrefix(i, j, kk[0], kk[1]))
							w.out.InjectPairs++
						}
					}
				}
			}
		}
	}
	// ---- phase 3: random search
	rstart := time.Now()
	for k := int64(w.idx); !w.stop && time.Since(rstart) < budget && w.out.Runs < maxRuns; k += int64(w.n) {
		seed := simrt.SplitMix64(w.base*0x9e3779b97f4a7c15 + uint64(k)*0xbf58476d1ce4e5b9 + 12345)
		sc := w.pickScenario(scs, seed)
		if sc == nil {
			break
		}
		var pre []uint32
		if sc.PointInject {
			pre = nil // the injection step is drawn at random
		}
		w.one(sc, seed, pre)
	}
	w.out.WallS = time.Since(start).Seconds()
	for h := range w.hashes {
		w.out.Hashes = append(w.out.Hashes, h)
	}
	for h := range w.nontriv {
		w.out.NontrivHash = append(w.out.NontrivHash, h)
	}
	for h := range w.pairs {
		w.out.Pairs = append(w.out.Pairs, h)
	}
	sort.Slice(w.out.Hashes, func(i, j int) bool { return w.out.Hashes[i] < w.out.Hashes[j] })
	b, _ := json.Marshal(w.out)
	if of := os.Getenv("VERIF_OUT"); of != "" {
		if err := os.WriteFile(of, b, 0o644); err != nil {
			t.Fatal(err)
		}
	} else {
		fmt.Printf("runs=%d steps=%d violations=%d harnessErr=%q\n", w.out.Runs, w.out.Steps, len(w.out.Violations), w.out.HarnessErr)
	}
}

func hashStr(s string) uint64 {
	h := fnv.New64a()
	h.Write([]byte(s))
	return h.Sum64()
}

func doReplay(t *testing.T, path string) {
	b, err := os.ReadFile(path)
	if err != nil {
		fmt.Printf("REPLAY-ERROR cannot read %s: %v\n", path, err)
		t.Fatal(err)
	}
	var rp Replay
	if err := json.Unmarshal(b, &rp); err != nil {
		fmt.Printf("REPLAY-ERROR cannot parse %s: %v\n", path, err)
		t.Fatal(err)
	}
	sc := scen.Find(rp.Property, rp.Scenario)
	if sc == nil {
		fmt.Printf("REPLAY-ERROR unknown scenario %s/%s\n", rp.Property, rp.Scenario)
		t.Fatal("unknown scenario")
	}
	tier := os.Getenv("VERIF_TIER")
	ex := replayExec(t, sc, rp.Gen, rp.Sched, rp.Fair, true, tier)
	if os.Getenv("VERIF_REPLAY_QUIET") == "" {
		for _, d := range ex.Run.Desc {
			fmt.Println("scenario:", d)
		}
		for _, l := range ex.Logs {
			fmt.Println(l)
		}
	}
	fmt.Printf("REPLAY steps=%d hash=%x capped=%v faults=%v\n", ex.Steps, ex.Hash, ex.Capped, ex.Run.Faults)
	if ex.Run.HarnessErr != "" {
		fmt.Printf("REPLAY-ERROR harness: %s\n", ex.Run.HarnessErr)
	}
	found := hasViolation(ex, rp.Expect.Rule, rp.Expect.Sig) != nil
	if rp.Fair && ex.Capped && rp.Expect.Rule == rp.Property+".LIVE" {
		found = true
	}
	for _, v := range ex.Run.Viol {
		fmt.Printf("REPLAY-VIOLATION rule=%s sig=%q step=%d\n  %s\n", v.Rule, v.Sig, v.Step, short(v.Detail, 1500))
	}
	if found {
		fmt.Printf("REPLAY-REPRODUCED property=%s rule=%s\n", rp.Property, rp.Expect.Rule)
	} else {
		fmt.Printf("REPLAY-NOT-REPRODUCED property=%s rule=%s\n", rp.Property, rp.Expect.Rule)
	}
}
