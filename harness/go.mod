module verifharness

go 1.26.8

require (
	github.com/ThreeDotsLabs/watermill v0.0.0
	github.com/anishathalye/porcupine v1.3.0
)

replace github.com/ThreeDotsLabs/watermill => ../wm
