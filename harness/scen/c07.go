package scen

import (
	"context"
	"fmt"
	"time"

	"github.com/ThreeDotsLabs/watermill/message"
	"github.com/ThreeDotsLabs/watermill/pubsub/gochannel"
	"github.com/ThreeDotsLabs/watermill/verifsim/simrt"
)

// C07 — GoChannel Close and subscription cancel always terminate safely.

type c7Sub struct {
	id          int
	topic       string
	ctx         context.Context
	cancel      context.CancelFunc
	ch          <-chan *message.Message
	err         error
	subscribed  bool
	invEv       int64
	retEv       int64
	cancelled   bool
	cancelEv    int64
	closedSeen  bool
	received    []string
	stopAfter   int // stop reading after n deliveries (-1 never)
	holdAfter   int // keep the n-th delivery unsettled for ever (-1 never)
	cancelAfter int
	nackEvery   int
	stopped     bool
	holding     bool
	late        bool
}

type c7World struct {
	r       *Run
	cfg     gochannel.Config
	ps      *gochannel.GoChannel
	sub     message.Subscriber // ps or decorated
	nDec    int
	topics  []string
	subs    []*c7Sub
	ev      int64
	pubN    int
	closeInv []int64
	closeRet []int64
	closeErr []error
	firstCloseRet int64
	pubs    []*c7Pub
	transformed int
}

type c7Pub struct {
	uuid, topic  string
	invEv, retEv int64
	err          error
	returned     bool
}

func (w *c7World) tick() int64 { w.ev++; return w.ev }

func (w *c7World) doClose(who string) {
	i := len(w.closeInv)
	w.closeInv = append(w.closeInv, w.tick())
	w.closeRet = append(w.closeRet, 0)
	w.closeErr = append(w.closeErr, nil)
	w.r.Fault("close")
	w.r.Logf("%s: Close() invoked", who)
	var err error
	pv, pan := Call(func() { err = w.sub.Close() })
	if pan {
		w.r.Fail("C07.R1", "Close panicked", "%s: Close panicked: %v", who, pv)
	}
	w.closeRet[i] = w.tick()
	w.closeErr[i] = err
	if w.firstCloseRet == 0 {
		w.firstCloseRet = w.closeRet[i]
	}
	w.r.Logf("%s: Close() returned %v", who, err)
	// at the very instant a Close call returns (also a repeated or overlapping one) the tear-down it promises is complete
	if !pan {
		// (the goroutines Close has to wait for: the per-subscription tear-down / replay goroutines and the decorator pumps)
		// a goroutine that is merely runnable at this instant may just be running its last statements (upstream's own
		// tear-down goroutine still has deferred unlocks to run after it released Close); one that WAITS for something is not done
		var alive []simrt.GInfo
		for _, g := range LibGoroutinesCreatedBy(w.r.Sim, "gochannel.(*GoChannel).Subscribe", "message.(*messageTransformSubscriberDecorator).Subscribe") {
			if g.Waiting {
				alive = append(alive, g)
			}
		}
		if len(alive) > 0 {
			g := alive[0]
			w.r.Fail("C07.R5", "a Close call returned while subscription tear-down goroutines were still running", "%s: %d goroutines, e.g. g%d created by %s, %s at %s", who, len(alive), g.ID, g.Created, g.State, g.Site)
		}
		// (every subscription's channel, also those a consumer is still reading: what is left in a closed channel stays
		// readable, and nothing more is demanded of deliveries once a Close was called)
		for _, s := range w.subs {
			if s.subscribed && !s.closedSeen {
				closed := false
				for k := 0; k <= int(w.cfg.OutputChannelBuffer)+1; k++ {
					_, ok, got := simrt.TryRecvRaw(s.ch)
					if !got {
						break
					}
					if !ok {
						closed = true
						s.closedSeen = true
						break
					}
				}
				if !closed {
					w.r.Fail("C07.R3", "an output channel was still open at the instant a Close call returned", "%s: sub %d (stopped=%v holding=%v)", who, s.id, s.stopped, s.holding)
				}
			}
		}
	}
}

func (w *c7World) doPublish(who, topic string) *c7Pub {
	w.pubN++
	m := message.NewMessage(fmt.Sprintf("%s/m%d", topic, w.pubN), []byte("x"))
	p := &c7Pub{uuid: m.UUID, topic: topic, invEv: w.tick()}
	w.pubs = append(w.pubs, p)
	w.r.Logf("%s: Publish(%s) invoked", who, m.UUID)
	pv, pan := Call(func() { p.err = w.ps.Publish(topic, m) })
	if pan {
		w.r.Fail("C07.R1", "Publish panicked", "%s: Publish(%s) panicked: %v", who, m.UUID, pv)
	}
	p.retEv = w.tick()
	p.returned = true
	w.r.Logf("%s: Publish(%s) returned %v", who, m.UUID, p.err)
	return p
}

func (w *c7World) doSubscribe(s *c7Sub) bool {
	s.ctx, s.cancel = context.WithCancel(context.Background())
	s.invEv = w.tick()
	w.r.Logf("sub %d: Subscribe(%s) invoked", s.id, s.topic)
	pv, pan := Call(func() { s.ch, s.err = w.sub.Subscribe(s.ctx, s.topic) })
	if pan {
		w.r.Fail("C07.R1", "Subscribe panicked", "sub %d: Subscribe panicked: %v", s.id, pv)
		s.err = fmt.Errorf("panic")
	}
	s.retEv = w.tick()
	s.subscribed = s.err == nil
	w.r.Logf("sub %d: Subscribe returned err=%v", s.id, s.err)
	return s.subscribed
}

func (w *c7World) doCancel(s *c7Sub, who string) {
	if s.cancel == nil || s.cancelled {
		return
	}
	s.cancelled = true
	s.cancelEv = w.tick()
	w.r.Fault("subscription-cancel")
	w.r.Logf("%s: cancel subscription %d", who, s.id)
	s.cancel()
}

func (w *c7World) consume(s *c7Sub) {
	n := 0
	for {
		m, ok := <-s.ch
		if !ok {
			s.closedSeen = true
			w.r.Logf("sub %d: channel closed", s.id)
			return
		}
		n++
		s.received = append(s.received, m.UUID)
		w.r.Logf("sub %d: received %s", s.id, m.UUID)
		if s.holdAfter >= 0 && n > s.holdAfter {
			s.holding = true
			w.r.Fault("consumer-holds-unsettled-message")
			w.r.Logf("sub %d: keeps %s unsettled and stops reading", s.id, m.UUID)
			return
		}
		seen := 0
		for _, u := range s.received {
			if u == m.UUID {
				seen++
			}
		}
		if s.nackEvery > 0 && seen <= s.nackEvery {
			w.r.Fault("consumer-nack")
			m.Nack()
		} else {
			m.Ack()
		}
		if s.cancelAfter >= 0 && n > s.cancelAfter {
			w.doCancel(s, fmt.Sprintf("sub %d", s.id))
		}
		if s.stopAfter >= 0 && n > s.stopAfter {
			s.stopped = true
			w.r.Fault("consumer-stops-reading")
			w.r.Logf("sub %d: stops reading", s.id)
			return
		}
	}
}

func c07Body(r *Run) {
	t := r.T
	w := &c7World{r: r}
	inj1 := t.Small(1<<16, 400)
	kind1 := t.Int(5)
	inj2 := 0
	kind2 := 0
	if t.Chance(1, 3) {
		inj2 = 1 + t.Small(1<<16, 400)
		kind2 = t.Int(5)
	}
	w.cfg.OutputChannelBuffer = int64(simrt.Pick(t, 0, 1, 3))
	w.cfg.Persistent = t.Chance(1, 3)
	w.cfg.BlockPublishUntilSubscriberAck = t.Chance(1, 3)
	w.nDec = t.Skewed(3)
	nTopics := 1 + t.Skewed(2)
	for i := 0; i < nTopics; i++ {
		w.topics = append(w.topics, fmt.Sprintf("t%d", i))
	}
	nSubs := 1 + t.Skewed(4)
	for i := 0; i < nSubs; i++ {
		s := &c7Sub{id: i, topic: w.topics[t.Int(nTopics)], stopAfter: -1, holdAfter: -1, cancelAfter: -1}
		switch t.Int(6) {
		case 1:
			s.stopAfter = t.Int(3)
		case 2:
			s.holdAfter = t.Int(3)
		case 3:
			s.cancelAfter = t.Int(3)
		case 4:
			s.nackEvery = 1 + t.Int(3)
		}
		s.late = t.Chance(1, 3)
		w.subs = append(w.subs, s)
	}
	type pubPlan struct {
		topic string
		n     int
	}
	var plans []pubPlan
	nPubs := 1 + t.Skewed(3)
	for i := 0; i < nPubs; i++ {
		plans = append(plans, pubPlan{w.topics[t.Int(nTopics)], 1 + t.Skewed(3)})
	}
	closers := 0
	var closerDelay []time.Duration
	if t.Chance(1, 3) {
		closers = 1 + t.Skewed(3)
		for i := 0; i < closers; i++ {
			closerDelay = append(closerDelay, time.Duration(t.Int(4))*time.Millisecond)
		}
	}
	r.Describe("GoChannel{buffer:%d persistent:%v blocking:%v} behind %d MessageTransformSubscriberDecorator(s); topics=%d", w.cfg.OutputChannelBuffer, w.cfg.Persistent, w.cfg.BlockPublishUntilSubscriberAck, w.nDec, nTopics)
	for _, s := range w.subs {
		r.Describe("sub %d on %s stopAfter=%d holdAfter=%d cancelAfter=%d nackEvery=%d late=%v", s.id, s.topic, s.stopAfter, s.holdAfter, s.cancelAfter, s.nackEvery, s.late)
	}
	r.Describe("publishers=%v concurrentClosers=%d delays=%v inject1=(step %d kind %d) inject2=(step %d kind %d)", plans, closers, closerDelay, inj1, kind1, inj2, kind2)
	r.Param("inject_step", inj1)

	w.ps = gochannel.NewGoChannel(w.cfg, nil)
	w.sub = w.ps
	// with two decorators, half of the runs stack ONE decorator value twice (a decorator value is reusable: a router applies
	// the one it was given to the subscriber of every handler)
	var oneDec message.SubscriberDecorator
	if w.nDec >= 2 && r.T.Chance(1, 2) {
		oneDec = message.MessageTransformSubscriberDecorator(func(m *message.Message) { w.transformed++ })
		r.Probe("one-decorator-value-applied-twice")
	}
	for i := 0; i < w.nDec; i++ {
		dec := oneDec
		if dec == nil {
			dec = message.MessageTransformSubscriberDecorator(func(m *message.Message) { w.transformed++ })
		}
		d, err := dec(w.sub)
		if err != nil {
			r.HarnessErr = "decorator: " + err.Error()
			return
		}
		w.sub = d
	}

	inject := func(step, kind, n int) {
		if step == 0 {
			return
		}
		label := fmt.Sprintf("inject%d", n)
		r.Sim.InjectAt(int64(step), label, func() {
			r.Fault("point-injection")
			switch kind {
			case 0, 1:
				w.doClose(label)
			case 2:
				if len(w.subs) > 0 {
					s := w.subs[(step+n)%len(w.subs)]
					if s.cancel != nil {
						w.doCancel(s, label)
					}
				}
			case 3:
				w.doPublish(label, w.topics[step%len(w.topics)])
			case 4:
				s := &c7Sub{id: 100 + n, topic: w.topics[step%len(w.topics)], stopAfter: -1, holdAfter: -1, cancelAfter: -1}
				w.subs = append(w.subs, s)
				if w.doSubscribe(s) {
					w.consume(s)
				}
			}
		})
	}
	inject(inj1, kind1, 1)
	inject(inj2, kind2, 2)

	r.Sim.AtEnd(func() { w.check() })

	// ---- phase 1: traffic
	for _, s := range w.subs {
		if !s.late {
			if w.doSubscribe(s) {
				s := s
				go w.consume(s)
			}
		}
	}
	for _, s := range w.subs {
		if s.late {
			s := s
			go func() {
				if w.doSubscribe(s) {
					w.consume(s)
				}
			}()
		}
	}
	for i, p := range plans {
		i, p := i, p
		go func() {
			for k := 0; k < p.n; k++ {
				w.doPublish(fmt.Sprintf("pub %d", i), p.topic)
			}
		}()
	}
	for i := 0; i < closers; i++ {
		i := i
		go func() {
			time.Sleep(closerDelay[i])
			w.doClose(fmt.Sprintf("closer %d", i))
		}()
	}
	r.Sim.Quiesce()
	r.Logf("--- quiescent after traffic")
	// as long as nobody closed the Pub/Sub, cancelling some subscriptions must leave the others working: every
	// successful Publish reached every healthy subscription that existed when it was called, exactly once unless nacked
	if len(w.closeInv) == 0 {
		for _, p := range w.pubs {
			if !p.returned || p.err != nil {
				continue
			}
			for _, s := range w.subs {
				if !s.subscribed || s.topic != p.topic || s.retEv > p.invEv || s.cancelled || s.stopped || s.holding || s.closedSeen {
					continue
				}
				n := 0
				for _, u := range s.received {
					if u == p.uuid {
						n++
					}
				}
				if n == 0 {
					r.Fail("C07.R6", "while another subscription was being cancelled a published message never reached a healthy subscription", "sub %d never received %s (published ev %d..%d)", s.id, p.uuid, p.invEv, p.retEv)
				} else if n > 1 && s.nackEvery == 0 {
					r.Fail("C07.R6", "while another subscription was being cancelled a healthy subscription received a message twice without nacking it", "sub %d received %s %d times", s.id, p.uuid, n)
				}
			}
		}
	}

	// ---- phase 2: a cancelled subscription must not disturb the others (only while the Pub/Sub is open)
	if len(w.closeInv) == 0 {
		anyCancel := false
		for _, s := range w.subs {
			if s.cancelled {
				anyCancel = true
			}
		}
		if anyCancel {
			r.Probe("probe-publish-after-cancel")
			base := map[int]int{}
			for _, s := range w.subs {
				base[s.id] = len(s.received)
			}
			var probes []*c7Pub
			for _, tp := range w.topics {
				tp := tp
				go func() { probes = append(probes, w.doPublish("probe", tp)) }()
			}
			r.Sim.Quiesce()
			for _, s := range w.subs {
				if len(w.closeInv) != 0 {
					break // an injected Close arrived meanwhile: nothing to demand
				}
				if s.cancelled {
					if !s.closedSeen && !s.stopped && !s.holding && s.subscribed {
						r.Fail("C07.R6", "the output channel of a cancelled subscription was not closed", "sub %d cancelled at ev %d, consumer still waiting at quiescence", s.id, s.cancelEv)
					}
					if !s.closedSeen && (s.stopped || s.holding) && s.subscribed {
						// nobody reads this channel any more: it has to be closed all the same. What may still be in it is
						// what its buffer holds; one item more means that a sender is still parked on it.
						closed := false
						for k := 0; k <= cap(s.ch); k++ {
							_, ok, got := simrt.TryRecvRaw(s.ch)
							if !got {
								break
							}
							if !ok {
								closed = true
								s.closedSeen = true
								break
							}
						}
						if !closed {
							r.Fail("C07.R6", "the unread output channel of a cancelled subscription was not closed", "sub %d cancelled at ev %d (consumer stopped reading=%v, holds an unsettled message=%v, decorators=%d)", s.id, s.cancelEv, s.stopped, s.holding, w.nDec)
						}
					}
					continue
				}
				if !s.subscribed || s.stopped || s.holding {
					continue
				}
				for _, p := range probes {
					if p.topic != s.topic || p.err != nil || !p.returned || s.retEv > p.invEv {
						continue
					}
					found := false
					for _, u := range s.received[base[s.id]:] {
						if u == p.uuid {
							found = true
						}
					}
					if !found {
						r.Fail("C07.R6", "after another subscription was cancelled a publish no longer reaches a healthy subscription", "sub %d did not receive probe %s", s.id, p.uuid)
					}
				}
			}
		}
	}

	// ---- phase 3: final Close (twice), then the API must refuse
	go w.doClose("final")
	r.Sim.Quiesce()
	go w.doClose("final-again")
	r.Sim.Quiesce()
	if w.firstCloseRet != 0 {
		p := w.doPublish("after-close", w.topics[0])
		if p.err == nil {
			r.Fail("C07.R4", "Publish succeeded after Close had returned", "Publish(%s) returned nil", p.uuid)
		}
		s := &c7Sub{id: 999, topic: w.topics[0], stopAfter: -1, holdAfter: -1, cancelAfter: -1}
		if w.doSubscribe(s) {
			r.Fail("C07.R4", "Subscribe succeeded after Close had returned", "Subscribe returned a channel")
		}
	}
}

func (w *c7World) check() {
	r := w.r
	for i := range w.closeInv {
		if w.closeRet[i] == 0 {
			holder := false
			for _, s := range w.subs {
				if s.stopped || s.holding {
					holder = true
				}
			}
			sig := "a Close call never returned"
			if w.nDec > 0 && holder {
				sig = "Close of a decorated subscriber never returns when a consumer has stopped reading its channel"
			}
			r.Fail("C07.R2", sig, "Close #%d invoked at ev %d still blocked at quiescence (decorators=%d)", i, w.closeInv[i], w.nDec)
			return
		}
	}
	// API calls racing with Close: after the first Close returned they must fail
	for _, p := range w.pubs {
		if w.firstCloseRet != 0 && p.invEv > w.firstCloseRet && p.returned && p.err == nil {
			r.Fail("C07.R4", "Publish succeeded after Close had returned", "Publish(%s) invoked at ev %d, Close returned at ev %d", p.uuid, p.invEv, w.firstCloseRet)
		}
		if !p.returned {
			anyHold := false
			for _, s := range w.subs {
				if s.holding || s.stopped {
					anyHold = true
				}
			}
			if w.firstCloseRet != 0 || !anyHold {
				r.Fail("C07.R2", "a Publish call never returned although the Pub/Sub was closed", "Publish(%s) invoked at ev %d", p.uuid, p.invEv)
			}
		}
	}
	for _, s := range w.subs {
		if s.invEv != 0 && s.retEv == 0 && w.firstCloseRet != 0 {
			r.Fail("C07.R2", "a Subscribe call never returned although the Pub/Sub was closed", "sub %d", s.id)
		}
		if w.firstCloseRet != 0 && s.invEv > w.firstCloseRet && s.subscribed {
			r.Fail("C07.R4", "Subscribe succeeded after Close had returned", "sub %d invoked at ev %d", s.id, s.invEv)
		}
	}
	if w.firstCloseRet == 0 {
		return
	}
	// R3: every output channel is closed after at most its buffered items
	for _, s := range w.subs {
		if !s.subscribed || s.closedSeen {
			continue
		}
		closed := false
		for i := 0; i <= int(w.cfg.OutputChannelBuffer)+1; i++ {
			_, ok, got := simrt.TryRecvRaw(s.ch)
			if !got {
				break
			}
			if !ok {
				closed = true
				break
			}
		}
		if !closed {
			r.Fail("C07.R3", "an output channel is not closed after Close returned", "sub %d (stopped=%v holding=%v cancelled=%v)", s.id, s.stopped, s.holding, s.cancelled)
		}
	}
	// R5: no Pub/Sub goroutine remains
	alive := LibGoroutinesAlive(r.Sim, "pubsub/gochannel.", "message.(*messageTransformSubscriberDecorator)")
	if len(alive) > 0 {
		g := alive[0]
		r.Fail("C07.R5", "a Pub/Sub goroutine is still alive after Close returned", "%d goroutines, e.g. g%d created by %s, %s at %s", len(alive), g.ID, g.Created, g.State, g.Site)
	}
}

func init() {
	Register(&Scenario{
		Prop: "C07", Name: "close-cancel", PointInject: true,
		// generation draws in order: inject1 step, inject1 kind, "second injection?", inject2 step-1, inject2 kind
		PairPrefix: func(i, j int64, k1, k2 int) []uint32 { return []uint32{uint32(i), uint32(k1), 1, uint32(j - 1), uint32(k2)} },
		PairKinds:  [][2]int{{0, 0}, {0, 2}, {0, 3}, {0, 4}, {2, 0}, {3, 0}, {4, 0}, {2, 3}},
		Setup: func(r *Run) simrt.Config {
			c := BaseConfig()
			c.Horizon = 10 * time.Minute
			return c
		},
		Body: c07Body,
		Real:  []string{"pubsub/gochannel.GoChannel", "message.MessageTransformSubscriberDecorator", "message.Message"},
		Stubs: []string{"sync.* -> vsync", "harness publishers/consumers/closers"},
	})
	Register(&Scenario{
		Prop: "C07", Name: "close-cancel-fine", PointInject: false,
		Setup: func(r *Run) simrt.Config {
			c := BaseConfig()
			c.Horizon = 10 * time.Minute
			c.Fine = true
			c.FinePkg = "pubsub/gochannel."
			return c
		},
		Body: c07Body,
		Real:  []string{"pubsub/gochannel.GoChannel", "message.MessageTransformSubscriberDecorator", "message.Message"},
		Stubs: []string{"sync.* -> vsync", "harness publishers/consumers/closers"},
	})
}
