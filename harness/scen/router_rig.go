package scen

import (
	"context"
	"time"

	"github.com/ThreeDotsLabs/watermill/message"
)

// routerRig runs one message.Router inside the simulation.
type routerRig struct {
	r           *Run
	Router      *message.Router
	ctx         context.Context
	cancel      context.CancelFunc
	RunErr      error
	RunReturned bool
	RunRetStep  int64
	RunPanic    any
}

func newRouterRig(r *Run, closeTimeout time.Duration) *routerRig {
	router, err := message.NewRouter(message.RouterConfig{CloseTimeout: closeTimeout}, nil)
	if err != nil {
		r.HarnessErr = "NewRouter: " + err.Error()
	}
	ctx, cancel := context.WithCancel(context.Background())
	return &routerRig{r: r, Router: router, ctx: ctx, cancel: cancel}
}

// Start runs the router in its own goroutine and waits until Running() is closed.
func (g *routerRig) Start() {
	g.StartAsync()
	<-g.Router.Running()
}

func (g *routerRig) StartAsync() {
	go func() {
		pv, pan := Call(func() { g.RunErr = g.Router.Run(g.ctx) })
		if pan {
			g.RunPanic = pv
		}
		g.RunReturned = true
		g.RunRetStep = g.r.Sim.Step()
		g.r.Logf("Router.Run returned err=%v panic=%v", g.RunErr, pv)
	}()
}
