package scen

import (
	"context"
	"errors"
	"fmt"
	"time"

	"github.com/ThreeDotsLabs/watermill/message"
	"github.com/ThreeDotsLabs/watermill/verifsim/simrt"
)

// C02 — Router settles each message once: Ack iff handled and outputs published.

const (
	hbNone = iota
	hbOne
	hbThree
	hbErr
	hbErrWithMsgs
	hbPanicStr
	hbPanicErr
	hbPanicNil
	hbAckOK
	hbAckErr
	hbAckPanic
	hbNackOK
	hbNackErr
	hbNackPanic
	hbErrCanceled
	hbCount
)

const c2PubKinds = 4

var c2PubFaults = [c2PubKinds]PubFault{PubOK, PubErr, PubPanic, PubErrCanceled}

var hbNames = [...]string{"return-0", "return-1", "return-3", "error", "error+2msgs", "panic(string)", "panic(error)", "panic(nil)",
	"Ack-then-1msg", "Ack-then-error", "Ack-then-panic", "Nack-then-1msg", "Nack-then-error", "Nack-then-panic", "error(context.Canceled)"}

const (
	mpNone = iota
	mpPass
	mpAddOutput
	mpCount
)

var mpNames = [...]string{"no-middleware", "pass-through-middleware", "output-adding-middleware"}

type c2Plan struct {
	hb int
	pb PubFault
}

type c2Handler struct {
	name     string
	noPub    bool
	mp       int
	sub      *ScriptedSubscriber
	pub      *ScriptedPublisher
	topic    string
	plans    map[string]c2Plan // key: uuid#attempt
	uniform  *c2Plan
}

func (h *c2Handler) planFor(d *Delivery) c2Plan {
	if h.uniform != nil {
		return *h.uniform
	}
	if p, ok := h.plans[fmt.Sprintf("%s#%d", d.Msg.UUID, d.Attempt)]; ok {
		return p
	}
	return c2Plan{hb: hbNone}
}

type c2Expect struct {
	acked     bool
	calls     int // publish calls expected for this delivery
	published int // messages expected in that call
}

func hbOutputs(hb int) int {
	switch hb {
	case hbOne, hbAckOK, hbNackOK:
		return 1
	case hbThree:
		return 3
	}
	return 0
}

func hbFails(hb int) bool {
	switch hb {
	case hbErr, hbErrWithMsgs, hbPanicStr, hbPanicErr, hbPanicNil, hbAckErr, hbAckPanic, hbNackErr, hbNackPanic, hbErrCanceled:
		return true
	}
	return false
}

func c02Expected(p c2Plan, noPub bool, mp int) c2Expect {
	var e c2Expect
	outs := 0
	if !noPub {
		outs = hbOutputs(p.hb)
	}
	fails := hbFails(p.hb)
	if !fails && mp == mpAddOutput {
		outs++
	}
	routerAck := false
	switch {
	case fails:
	case outs == 0:
		routerAck = true
	case noPub:
		// outputs in a handler without publisher: Nack, nothing published
	default:
		e.calls = 1
		e.published = outs
		routerAck = p.pb == PubOK
	}
	e.acked = routerAck
	switch p.hb {
	case hbAckOK, hbAckErr, hbAckPanic:
		e.acked = true
	case hbNackOK, hbNackErr, hbNackPanic:
		e.acked = false
	}
	return e
}

var errC2Handler = errors.New("scripted handler error")

// c2Published collects the publish calls that carried outputs of one consumed message.
type c2Published struct {
	calls  []*PubCall
	failed bool // the scripted publish fault was applied (to the first call)
}

func c02Body(r *Run) {
	t := r.T
	cell := t.Int(hbCount * c2PubKinds * 2 * mpCount)
	mixed := t.Chance(1, 2)
	hb := cell % hbCount
	pbv := c2PubFaults[(cell/hbCount)%c2PubKinds]
	hk := (cell / (hbCount * c2PubKinds)) % 2
	mp := (cell / (hbCount * c2PubKinds * 2)) % mpCount
	nHandlers := 1
	if mixed {
		nHandlers = 1 + t.Skewed(3)
	}
	// a fifth of the mixed runs: every invocation takes five seconds and the Router is closed (CloseTimeout one second)
	// while they run: the close times out, the invocations go on and settle their messages as always
	slowClose := mixed && t.Chance(1, 5)
	closeTimeout := 30 * time.Second
	if slowClose {
		closeTimeout = time.Second
	}
	rig := newRouterRig(r, closeTimeout)
	var hs []*c2Handler
	invoked := map[*Delivery]int{}
	raceSettle := map[*Delivery]bool{} // deliveries whose handler also settles (Nack) from a goroutine of its own
	inPublishUnsettled := 0
	for i := 0; i < nHandlers; i++ {
		h := &c2Handler{name: fmt.Sprintf("h%d", i), topic: fmt.Sprintf("in%d", i), plans: map[string]c2Plan{}}
		h.noPub = hk == 1
		h.mp = mp
		if mixed && i > 0 {
			h.noPub = t.Chance(1, 3)
			h.mp = t.Int(mpCount)
		}
		h.sub = NewScriptedSubscriber(r, h.name+"-sub")
		h.sub.Lanes = 1 + t.Skewed(8)
		h.sub.MaxRedeliver = t.Int(3)
		h.pub = NewScriptedPublisher(r, h.name+"-pub")
		nMsgs := 1 + t.Skewed(8)
		if !mixed {
			h.uniform = &c2Plan{hb: hb, pb: pbv}
			nMsgs = 1 + t.Skewed(3)
		}
		for m := 0; m < nMsgs; m++ {
			sm := ScriptMsg{UUID: fmt.Sprintf("%s-m%d", h.name, m), Payload: "p"}
			if mixed && t.Chance(1, 8) {
				sm.Dup = 1
			}
			h.sub.Script[h.topic] = append(h.sub.Script[h.topic], sm)
			if mixed {
				for a := 0; a <= h.sub.MaxRedeliver+sm.Dup+1; a++ {
					h.plans[fmt.Sprintf("%s#%d", sm.UUID, a)] = c2Plan{hb: t.Int(hbCount), pb: c2PubFaults[t.Int(c2PubKinds)]}
				}
			}
		}
		hs = append(hs, h)
		if h.uniform != nil {
			r.Describe("handler %s: %s x publisher %s x noPublisher=%v x %s, %d messages, %d in flight, redeliver<=%d", h.name, hbNames[hb], pbv, h.noPub, mpNames[h.mp], nMsgs, h.sub.Lanes, h.sub.MaxRedeliver)
		} else {
			r.Describe("handler %s: mixed behaviours %v noPublisher=%v %s, %d messages, %d in flight, redeliver<=%d", h.name, h.plans, h.noPub, mpNames[h.mp], nMsgs, h.sub.Lanes, h.sub.MaxRedeliver)
		}
	}

	for _, h := range hs {
		h := h
		// outputs carry the identity of the consumed delivery
		mkOut := func(d *Delivery, k int) *message.Message {
			m := message.NewMessage(fmt.Sprintf("%s-out%d-a%d", d.Msg.UUID, k, d.Attempt), []byte("o"))
			m.Metadata.Set("src", fmt.Sprintf("%s#%d", d.Msg.UUID, d.Attempt))
			return m
		}
		fn := func(msg *message.Message) ([]*message.Message, error) {
			d := h.sub.ByMsg[msg]
			if d == nil {
				r.Fail("C02.R6", "handler invoked with a message its subscriber never emitted", "handler %s got %s", h.name, msg.UUID)
				return nil, nil
			}
			invoked[d]++
			d.Started = r.Sim.Step()
			if mixed && len(invoked)%7 == 3 {
				raceSettle[d] = true
			}
			if slowClose {
				time.Sleep(5 * time.Second)
			}
			p := h.planFor(d)
			r.Logf("handler %s invoked for %s attempt %d: %s", h.name, msg.UUID, d.Attempt, hbNames[p.hb])
			defer func() { d.Finished = r.Sim.Step() }()
			var outs []*message.Message
			for k := 0; k < hbOutputs(p.hb); k++ {
				outs = append(outs, mkOut(d, k))
			}
			if raceSettle[d] {
				// a watchdog of the handler settles the message from another goroutine just as the handler returns: whoever
				// comes first decides, and exactly one of the two outcomes stands
				r.Fault("handler-side-settlement-races-with-the-router")
				go func() {
					simrt.Yield()
					msg.Nack()
				}()
			}
			switch p.hb {
			case hbAckOK, hbAckErr, hbAckPanic:
				msg.Ack()
			case hbNackOK, hbNackErr, hbNackPanic:
				msg.Nack()
			}
			switch p.hb {
			case hbErrCanceled:
				r.Fault("handler-error")
				if d.Attempt%2 == 0 {
					return nil, context.Canceled
				}
				return nil, fmt.Errorf("handler interrupted: %w", context.Canceled)
			case hbErr, hbAckErr, hbNackErr:
				r.Fault("handler-error")
				return nil, errC2Handler
			case hbErrWithMsgs:
				r.Fault("handler-error")
				return []*message.Message{mkOut(d, 0), mkOut(d, 1)}, errC2Handler
			case hbPanicStr, hbAckPanic, hbNackPanic:
				r.Fault("handler-panic")
				panic("scripted handler panic")
			case hbPanicErr:
				r.Fault("handler-panic")
				panic(errC2Handler)
			case hbPanicNil:
				r.Fault("handler-panic")
				panic(nil)
			}
			return outs, nil
		}
		h.pub.Decide = func(c *PubCall) PubFault {
			if len(c.Msgs) == 0 {
				// publishing nothing is not forbidden by the property (and decides nothing)
				r.Probe("empty-publish-call")
				return PubOK
			}
			src := c.Msgs[0].Metadata.Get("src")
			for _, d := range h.sub.Deliveries {
				if fmt.Sprintf("%s#%d", d.Msg.UUID, d.Attempt) == src {
					p := h.planFor(d)
					selfSettled := (p.hb >= hbAckOK && p.hb <= hbNackPanic) || raceSettle[d]
					if !selfSettled && d.Settled() {
						r.Fail("C02.R3", "the consumed message was already settled while its outputs were being published", "handler %s %s acked=%v nacked=%v inside Publish", h.name, src, d.Acked(), d.Nacked())
					}
					if !selfSettled {
						inPublishUnsettled++
					}
					if hbFails(p.hb) {
						r.Fail("C02.R4", "messages returned together with an error were published", "handler %s %s behaviour %s", h.name, src, hbNames[p.hb])
					}
					// the outputs of one consumed message may be handed over in one call or one by one; the scripted
					// fault hits the first call
					pc, _ := d.Tag.(*c2Published)
					if pc == nil {
						pc = &c2Published{}
						d.Tag = pc
					}
					pc.calls = append(pc.calls, c)
					if pc.failed {
						r.Probe("publish-after-failed-publish")
						return PubOK
					}
					if len(pc.calls) == 1 {
						pc.failed = p.pb != PubOK
						return p.pb
					}
					return PubOK
				}
			}
			r.Fail("C02.R4", "a published message does not stem from any delivery of this handler", "handler %s src=%q", h.name, src)
			return PubOK
		}
		var hh *message.Handler
		if h.noPub {
			hh = rig.Router.AddNoPublisherHandler(h.name, h.topic, h.sub, func(msg *message.Message) error {
				_, err := fn(msg)
				return err
			})
		} else {
			// (a fifth of the publishing handlers publish on the empty topic: a publisher that routes by metadata or
			// has one fixed destination needs none, and the handler has a publisher all the same)
			outTopic := "out-" + h.name
			if r.T.Chance(1, 5) {
				outTopic = ""
				r.Probe("handler-with-publisher-and-empty-publish-topic")
			}
			hh = rig.Router.AddHandler(h.name, h.topic, h.sub, outTopic, h.pub, fn)
		}
		switch h.mp {
		case mpPass:
			hh.AddMiddleware(func(next message.HandlerFunc) message.HandlerFunc {
				return func(m *message.Message) ([]*message.Message, error) {
					// passes everything on, in a slice of its own (never nil, also when there is nothing in it)
					outs, err := next(m)
					rebuilt := make([]*message.Message, 0, len(outs)+1)
					return append(rebuilt, outs...), err
				}
			})
		case mpAddOutput:
			hh.AddMiddleware(func(next message.HandlerFunc) message.HandlerFunc {
				return func(m *message.Message) ([]*message.Message, error) {
					outs, err := next(m)
					if err != nil {
						return outs, err
					}
					d := h.sub.ByMsg[m]
					extra := message.NewMessage(m.UUID+"-mw", []byte("mw"))
					if d != nil {
						extra.Metadata.Set("src", fmt.Sprintf("%s#%d", d.Msg.UUID, d.Attempt))
					}
					return append(outs, extra), nil
				}
			})
		}
	}

	r.Sim.AtEnd(func() {
		for _, h := range hs {
			for _, d := range h.sub.Deliveries {
				p := h.planFor(d)
				e := c02Expected(p, h.noPub, h.mp)
				what := fmt.Sprintf("handler %s (noPublisher=%v, %s) delivery %s#%d: handler %s, publisher %s", h.name, h.noPub, mpNames[h.mp], d.Msg.UUID, d.Attempt, hbNames[p.hb], p.pb)
				if invoked[d] != 1 {
					r.Fail("C02.R6", "handler not invoked exactly once for an emitted message", "%s: invoked %d times", what, invoked[d])
					continue
				}
				if !d.Settled() {
					r.Fail("C02.R1", "an emitted message is unsettled at quiescence", "%s", what)
					continue
				}
				if d.Acked() && d.Nacked() {
					r.Fail("C02.R1", "message both acked and nacked", "%s", what)
				}
				if raceSettle[d] {
					continue // either outcome stands (but not both: checked above)
				}
				if d.Acked() != e.acked {
					sig := "message acked although the chain failed or its outputs were not accepted"
					if !d.Acked() {
						sig = "message nacked although the chain succeeded and its outputs were accepted"
					}
					if p.hb >= hbAckOK && p.hb <= hbNackPanic {
						sig = "a settlement made by the handler itself was overridden"
					}
					r.Fail("C02.R2", sig, "%s: acked=%v expected %v", what, d.Acked(), e.acked)
				}
				calls, n := 0, 0
				failed := false
				if pc, ok := d.Tag.(*c2Published); ok && pc != nil {
					calls = len(pc.calls)
					failed = pc.failed
					for _, c := range pc.calls {
						n += len(c.Msgs)
					}
				}
				selfNacked := p.hb == hbNackOK
				switch {
				case e.calls == 0 && calls != 0:
					r.Fail("C02.R4", "wrong publish calls for a consumed message", "%s: %d call(s) with %d messages, expected none", what, calls, n)
				case e.calls > 0 && calls == 0 && !selfNacked:
					// (after the handler's own Nack the outputs may or may not be published: the Nack stands either way)
					r.Fail("C02.R4", "wrong publish calls for a consumed message", "%s: no publish call, expected %d messages", what, e.published)
				case e.calls > 0 && calls > 0 && !failed && n != e.published:
					r.Fail("C02.R4", "wrong publish calls for a consumed message", "%s: %d call(s) with %d messages, expected %d messages", what, calls, n, e.published)
				case e.calls > 0 && calls > 0 && failed && n > e.published:
					r.Fail("C02.R4", "wrong publish calls for a consumed message", "%s: %d call(s) with %d messages, expected at most %d", what, calls, n, e.published)
				}
			}
			if h.noPub && len(h.pub.Calls) > 0 {
				r.Fail("C02.R4", "a handler without publisher published", "handler %s", h.name)
			}
		}
		if inPublishUnsettled > 0 {
			r.Probe("settlement-sampled-inside-publish")
		}
		if !rig.RunReturned {
			r.Fail("C02.R7", "Router.Run did not return after Close", "")
		}
	})

	rig.Start()
	if slowClose {
		go func() {
			time.Sleep(100 * time.Millisecond)
			r.Fault("router-close-times-out-while-handlers-run")
			rig.Router.Close()
		}()
	}
	r.Sim.Quiesce()
	r.Logf("--- closing router")
	if err := rig.Router.Close(); err != nil && !slowClose {
		// (after a Close that timed out, what a repeated Close returns is not fixed: nil or the remembered time-out)
		r.Fail("C02.R7", "Router.Close returned an error with idle handlers", "%v", err)
	}
}

func init() {
	Register(&Scenario{
		Prop: "C02", Name: "settlement-matrix",
		Setup: func(r *Run) simrt.Config {
			c := BaseConfig()
			c.Horizon = 10 * time.Minute
			MaybeFine(r, &c, "watermill/message.", 1, 4)
			return c
		},
		Body: c02Body,
		Prefixes: func(tier string) [][]uint32 {
			var out [][]uint32
			for c := 0; c < hbCount*c2PubKinds*2*mpCount; c++ {
				out = append(out, []uint32{uint32(c), 0})
			}
			return out
		},
		Real:  []string{"message.Router (AddHandler, AddNoPublisherHandler, Run, handler loop, handleMessage, Close)", "message.Message", "message.MessageTransformSubscriberDecorator (context decorator)"},
		Stubs: []string{"ScriptedSubscriber (broker model with redelivery)", "ScriptedPublisher (content-driven faults)", "sync.* -> vsync"},
	})
}
