package scen

import (
	"context"
	"errors"
	"fmt"
	"strings"
	"time"

	"github.com/ThreeDotsLabs/watermill/message"
	"github.com/ThreeDotsLabs/watermill/pubsub/gochannel"
	"github.com/ThreeDotsLabs/watermill/verifsim/simrt"
)

// C01 — end-to-end at-least-once through Router pipelines under faults.

const (
	c1HandlerErr = iota
	c1HandlerPanic
	c1PubErr
	c1PubPanic
	c1PubErrAfterAccept
	c1Kinds
	// only in random scripts (the enumerated cells keep their numbering)
	c1PubErrCanceled    = c1Kinds
	c1HandlerErrDeadCtx = c1Kinds + 1 // the handler fails and leaves a cancelled context in the message (deadline idiom: WithTimeout, SetContext, defer cancel)
	c1KindsRandom       = c1Kinds + 2
)

var c1KindNames = [...]string{"handler-error", "handler-panic", "publisher-error", "publisher-panic", "publisher-error-after-accept", "publisher-error-context-canceled", "handler-error-leaving-a-cancelled-context"}

type c1Fault struct {
	stage int
	kind  int
	k     int // 1-based call number at that stage
}

type c1Inv struct {
	stage      *c1Stage
	msg        *message.Message
	lineage    string
	handlerErr bool
	call       *PubCall
	n          int
}

type c1Stage struct {
	idx    int
	name   string
	level  int // position in the chain
	in     string
	out    string
	fanOut bool
	// passthrough: the stage hands on the message it consumed (the same object, like message.PassthroughHandler)
	passthrough bool
	pub    *ScriptedPublisher
	calls  int
	hFault map[int]int // call number -> kind
	invs   []*c1Inv
}

func c1Decode(f int) c1Fault { // 0..29 -> (stage 0..1, kind 0..4, k 1..3)
	return c1Fault{stage: f / 15, kind: (f / 3) % 5, k: 1 + f%3}
}

var errC1 = errors.New("injected handler error")

func c01Body(r *Run) {
	t := r.T
	mode := t.Int(3)
	f1 := t.Int(30)
	f2 := t.Int(30)
	var faults []c1Fault
	nLevels := 2
	nMsgs := 3
	fanOutAt, fanInAt := -1, -1
	switch mode {
	case 1:
		faults = []c1Fault{c1Decode(f1)}
	case 2:
		faults = []c1Fault{c1Decode(f1), c1Decode(f2)}
	default:
		nLevels = 1 + t.Int(4)
		nMsgs = 1 + t.Skewed(6)
		switch t.Int(4) {
		case 1:
			fanOutAt = t.Int(nLevels)
		case 2:
			fanInAt = t.Int(nLevels)
		}
		nF := t.Skewed(9)
		for i := 0; i < nF; i++ {
			faults = append(faults, c1Fault{stage: t.Int(nLevels + 1), kind: t.Int(c1KindsRandom), k: 1 + t.Skewed(6)})
		}
	}
	cfg := gochannel.Config{OutputChannelBuffer: int64(simrt.Pick(t, 0, 1, 3)), Persistent: t.Chance(1, 4), BlockPublishUntilSubscriberAck: t.Chance(1, 3)}
	shared := t.Chance(1, 2)
	var pubsubs []*gochannel.GoChannel
	psFor := func(level int) *gochannel.GoChannel {
		if shared {
			if len(pubsubs) == 0 {
				pubsubs = append(pubsubs, gochannel.NewGoChannel(cfg, nil))
			}
			return pubsubs[0]
		}
		for len(pubsubs) <= level {
			pubsubs = append(pubsubs, gochannel.NewGoChannel(cfg, nil))
		}
		return pubsubs[level]
	}
	topic := func(level int) string { return fmt.Sprintf("T%d", level) }

	rig := newRouterRig(r, 30*time.Second)
	var stages []*c1Stage
	addStage := func(level int, name string) *c1Stage {
		s := &c1Stage{idx: len(stages), name: name, level: level, in: topic(level), out: topic(level + 1), hFault: map[int]int{}}
		s.fanOut = level == fanOutAt
		s.pub = NewScriptedPublisher(r, name+"-pub")
		s.pub.Inner = psFor(level + 1)
		stages = append(stages, s)
		return s
	}
	for l := 0; l < nLevels; l++ {
		addStage(l, fmt.Sprintf("s%d", l))
		if l == fanInAt {
			addStage(l, fmt.Sprintf("s%db", l))
		}
	}
	if mode == 0 {
		for _, s := range stages {
			if !s.fanOut && t.Chance(1, 4) {
				s.passthrough = true
			}
		}
	}
	for _, f := range faults {
		if f.stage >= len(stages) {
			continue
		}
		s := stages[f.stage]
		switch f.kind {
		case c1HandlerErr, c1HandlerPanic, c1HandlerErrDeadCtx:
			s.hFault[f.k] = f.kind
		case c1PubErr:
			s.pub.FailAt[f.k] = PubErr
		case c1PubPanic:
			s.pub.FailAt[f.k] = PubPanic
		case c1PubErrAfterAccept:
			s.pub.FailAt[f.k] = PubErrAfterAccept
		case c1PubErrCanceled:
			s.pub.FailAt[f.k] = PubErrCanceled
		}
	}
	var fd []string
	for _, f := range faults {
		fd = append(fd, fmt.Sprintf("(stage %d %s on call %d)", f.stage, c1KindNames[f.kind], f.k))
	}
	r.Describe("pipeline: %d levels, %d handlers, fanOutAt=%d fanInAt=%d, %d source messages; GoChannel{buffer:%d persistent:%v blocking:%v} shared=%v", nLevels, len(stages), fanOutAt, fanInAt, nMsgs, cfg.OutputChannelBuffer, cfg.Persistent, cfg.BlockPublishUntilSubscriberAck, shared)
	r.Describe("fault script: %s", strings.Join(fd, " "))

	// output UUID -> the (latest) invocation that returned it; a router may hand the publisher the returned objects or equal copies
	consumedOf := map[string]*c1Inv{}
	deadCtx := map[string]int{}
	for _, s := range stages {
		s := s
		s.pub.Hook = func(c *PubCall) {
			for _, m := range c.Msgs {
				iv := consumedOf[s.name+"|"+m.UUID]
				if iv == nil {
					r.Fail("C01.R2", "a stage published a message no handler invocation produced", "%s published %s", s.name, m.UUID)
					continue
				}
				iv.call = c
				if rawClosed(iv.msg.Acked()) {
					r.Fail("C01.R3", "a stage settled its consumed message before the next topic accepted the output", "%s: consumed %s acked inside Publish", s.name, iv.msg.UUID)
				}
			}
		}
		rig.Router.AddHandler(s.name, s.in, psFor(s.level), s.out, s.pub, func(m *message.Message) ([]*message.Message, error) {
			// a handler that honours the message context: a delivery whose context has already ended cannot be processed.
			// (Nothing in these runs ends a subscription, so every delivery has to arrive with a live context; a message
			// that keeps arriving dead never gets through.)
			if cerr := m.Context().Err(); cerr != nil {
				deadCtx[s.name+"/"+m.UUID]++
				if n := deadCtx[s.name+"/"+m.UUID]; n < 8 {
					return nil, cerr
				} else if n == 8 {
					r.Fail("C01.R1", "a message keeps being redelivered with an already ended context: a handler that honours the context can never process it", "%s: %s arrived %d times with %v", s.name, m.UUID, n, cerr)
				}
			}
			s.calls++
			iv := &c1Inv{stage: s, msg: m, lineage: m.UUID, n: s.calls}
			s.invs = append(s.invs, iv)
			if k, ok := s.hFault[s.calls]; ok {
				iv.handlerErr = true
				r.Fault(c1KindNames[k])
				if k == c1HandlerPanic {
					panic("injected handler panic")
				}
				if k == c1HandlerErrDeadCtx {
					ctx, cancel := context.WithTimeout(m.Context(), time.Millisecond)
					m.SetContext(ctx)
					cancel()
				}
				return nil, errC1
			}
			if s.passthrough {
				consumedOf[s.name+"|"+m.UUID] = iv
				return []*message.Message{m}, nil
			}
			var outs []*message.Message
			branches := []string{""}
			if s.fanOut {
				branches = []string{"A", "B"}
			}
			for _, b := range branches {
				o := message.NewMessage(m.UUID+"/"+s.name+b, m.Payload)
				o.Metadata.Set("src", m.Metadata.Get("src"))
				consumedOf[s.name+"|"+o.UUID] = iv
				outs = append(outs, o)
			}
			return outs, nil
		})
	}
	// the sink
	sinkGot := map[string]int{}
	sinkCtx, sinkCancel := context.WithCancel(context.Background())
	defer sinkCancel()
	sinkCh, err := psFor(nLevels).Subscribe(sinkCtx, topic(nLevels))
	if err != nil {
		r.HarnessErr = "sink subscribe: " + err.Error()
		return
	}
	go func() {
		for m := range sinkCh {
			sinkGot[m.UUID]++
			r.Logf("sink received %s", m.UUID)
			m.Ack()
		}
	}()
	published := map[string]bool{}

	// all lineages that must arrive for a source id
	var paths []string
	var walk func(level int, prefix string)
	walk = func(level int, prefix string) {
		if level == nLevels {
			paths = append(paths, prefix)
			return
		}
		for _, s := range stages {
			if s.level != level {
				continue
			}
			if s.passthrough {
				walk(level+1, prefix)
			} else if s.fanOut {
				walk(level+1, prefix+"/"+s.name+"A")
				walk(level+1, prefix+"/"+s.name+"B")
			} else {
				walk(level+1, prefix+"/"+s.name)
			}
		}
	}
	walk(0, "")

	r.Sim.AtEnd(func() {
		for src := range published {
			for _, p := range paths {
				if sinkGot[src+p] == 0 {
					r.Fail("C01.R1", "a successfully published source message never reached the final topic once the faults had stopped", "source %s: lineage %s missing at the sink (sink has %v)", src, src+p, sinkGot)
				}
			}
		}
		for u := range sinkGot {
			ok := false
			for src := range published {
				for _, p := range paths {
					if u == src+p {
						ok = true
					}
				}
			}
			if !ok {
				r.Fail("C01.R2", "a message at the final topic does not derive from a published source message along an existing path", "sink got %s", u)
			}
		}
		for _, s := range stages {
			for i, iv := range s.invs {
				acked, nacked := rawClosed(iv.msg.Acked()), rawClosed(iv.msg.Nacked())
				pubOK := iv.call != nil && iv.call.Err == nil
				if acked && (iv.handlerErr || !pubOK) {
					r.Fail("C01.R3", "a stage acked a message although its handler failed or its output was not accepted by the next topic", "%s invocation %d of %s: handlerFailed=%v publishAccepted=%v", s.name, iv.n, iv.lineage, iv.handlerErr, pubOK)
				}
				if !acked && !nacked {
					r.Fail("C01.R4", "a consumed message is unsettled at quiescence", "%s invocation %d of %s", s.name, iv.n, iv.lineage)
				}
				if nacked {
					again := false
					for _, later := range s.invs[i+1:] {
						if later.lineage == iv.lineage {
							again = true
						}
					}
					if !again {
						r.Fail("C01.R4", "a Nacked message was not redelivered to its stage", "%s invocation %d of %s", s.name, iv.n, iv.lineage)
					}
				}
			}
		}
	})

	rig.Start()
	src := psFor(0)
	for i := 0; i < nMsgs; i++ {
		m := message.NewMessage(fmt.Sprintf("src%d", i), []byte(fmt.Sprintf("payload%d", i)))
		m.Metadata.Set("src", m.UUID)
		if err := src.Publish(topic(0), m); err == nil {
			published[m.UUID] = true
		}
	}
	r.Sim.Quiesce()
}

func init() {
	Register(&Scenario{
		Prop: "C01", Name: "pipeline-faults",
		Setup: func(r *Run) simrt.Config {
			c := BaseConfig()
			c.Horizon = 10 * time.Minute
			MaybeFine(r, &c, "watermill/message.", 1, 4)
			return c
		},
		Body: c01Body,
		Prefixes: func(tier string) [][]uint32 {
			var out [][]uint32
			for f := 0; f < 30; f++ {
				out = append(out, []uint32{1, uint32(f), 0})
			}
			if tier == "thorough" {
				for f := 0; f < 30; f++ {
					for g := 0; g < 30; g++ {
						out = append(out, []uint32{2, uint32(f), uint32(g)})
					}
				}
			}
			return out
		},
		Real:  []string{"message.Router", "pubsub/gochannel.GoChannel (all hops)", "message.Message"},
		Stubs: []string{"ScriptedPublisher as fault-injecting wrapper around the real GoChannel publisher", "fault-injecting handler wrapper", "sync.* -> vsync"},
	})
}
