package scen

import (
	"fmt"
	"time"

	"github.com/anishathalye/porcupine"

	"github.com/ThreeDotsLabs/watermill/message"
	"github.com/ThreeDotsLabs/watermill/verifsim/simrt"
)

// C03 — Message Ack/Nack is a linearizable first-wins state machine.

const (
	opAck = iota
	opNack
	opProbeAcked
	opProbeNacked
)

var c03OpNames = [...]string{"Ack", "Nack", "Acked?", "Nacked?"}

// reference model: 0 unsettled, 1 acked, 2 nacked
func c03Model(state int, op int) (int, bool) {
	switch op {
	case opAck:
		if state == 2 {
			return state, false
		}
		return 1, true
	case opNack:
		if state == 1 {
			return state, false
		}
		return 2, true
	case opProbeAcked:
		return state, state == 1
	default:
		return state, state == 2
	}
}

func c03NewMsg(kind int) *message.Message {
	switch kind {
	case 0:
		return message.NewMessage("u", []byte("p"))
	case 1:
		m := message.NewMessage("u", []byte("p"))
		m.Ack() // Copy must not inherit the settlement
		return m.Copy()
	default:
		return &message.Message{}
	}
}

var c03Kinds = [...]string{"NewMessage", "Copy-of-acked", "zero-value"}

func c03Apply(m *message.Message, op int) bool {
	switch op {
	case opAck:
		return m.Ack()
	case opNack:
		return m.Nack()
	case opProbeAcked:
		return rawClosed(m.Acked())
	default:
		return rawClosed(m.Nacked())
	}
}

func init() {
	Register(&Scenario{
		Prop: "C03", Name: "sequential-programs",
		Real:  []string{"message.Message (Ack, Nack, Acked, Nacked, Copy)"},
		Stubs: []string{"sync.Mutex -> vsync.Mutex"},
		Prefixes: func(tier string) [][]uint32 {
			maxK := 6
			if tier == "thorough" {
				maxK = 8
			}
			var out [][]uint32
			for kind := 0; kind < 3; kind++ {
				for k := 1; k <= maxK; k++ {
					out = append(out, []uint32{uint32(kind), uint32(k)})
				}
			}
			return out
		},
		Weight: -1,
		Setup: func(r *Run) simrt.Config {
			c := BaseConfig()
			c.Horizon = time.Second
			c.StepCap = 8 << 20 // all 4^8 programs run inside one simulated execution; every Ack/Nack is a scheduling step
			return c
		},
		Body: func(r *Run) {
			kind := r.T.Int(3)
			k := r.T.Int(9) // the forced prefix carries k directly
			if k == 0 {
				k = 1
			}
			r.Describe("all 4^%d sequential programs over {Ack,Nack,Acked?,Nacked?} on a %s message", k, c03Kinds[kind])
			total := 1
			for i := 0; i < k; i++ {
				total *= 4
			}
			r.Param("programs", total)
			for p := 0; p < total; p++ {
				m := c03NewMsg(kind)
				state := 0
				x := p
				var prog []int
				for i := 0; i < k; i++ {
					op := x % 4
					x /= 4
					prog = append(prog, op)
					var got bool
					pv, pan := Call(func() { got = c03Apply(m, op) })
					if pan {
						r.Fail("C03.R1", "Ack/Nack/Acked/Nacked panicked in a sequential program", "program %v on %s: op %d panicked: %v", prog, c03Kinds[kind], i, pv)
						return
					}
					var want bool
					state, want = c03Model(state, op)
					if got != want {
						r.Fail("C03.R2", "sequential result differs from the first-wins model", "program %v on %s: op %d (%s) returned %v, model says %v", prog, c03Kinds[kind], i, c03OpNames[op], got, want)
						return
					}
					if rawClosed(m.Acked()) && rawClosed(m.Nacked()) {
						r.Fail("C03.R3", "both Acked() and Nacked() closed", "program %v on %s", prog, c03Kinds[kind])
						return
					}
				}
			}
			r.Probe("sequential-programs-checked")
		},
	})

	Register(&Scenario{
		Prop: "C03", Name: "concurrent-history",
		Real:  []string{"message.Message (Ack, Nack, Acked, Nacked, Copy)"},
		Stubs: []string{"sync.Mutex -> vsync.Mutex"},
		Setup: func(r *Run) simrt.Config {
			c := BaseConfig()
			c.Fine = true
			c.FinePkg = "watermill/message."
			c.Horizon = time.Second
			return c
		},
		Weight: 10,
		Body:   c03Concurrent,
	})
}

type c03Op struct {
	client int
	op     int
	out    bool
	call   int64
	ret    int64
	pan    any
}

func c03Concurrent(r *Run) {
	kind := r.T.Int(3)
	nG := 2 + r.T.Skewed(15)
	m := c03NewMsg(kind)
	var ev int64
	var ops []*c03Op
	progs := make([][]int, nG)
	tot := 0
	for g := 0; g < nG; g++ {
		n := 1 + r.T.Int(4)
		if tot+n > 64 {
			n = 64 - tot
		}
		for i := 0; i < n; i++ {
			// settle operations are the interesting ones
			op := r.T.Int(6)
			if op >= 4 {
				op -= 4
			}
			progs[g] = append(progs[g], op)
		}
		tot += n
	}
	// half of the runs: further goroutines copy the message while it is being settled (as a Pub/Sub does for a redelivery)
	// and settle their copy: a copy is a message of its own, no call on it blocks or panics, never both channels closed
	nCopiers := 0
	var copyProgs [][]int
	if r.T.Chance(1, 2) {
		nCopiers = 1 + r.T.Int(2)
		for c := 0; c < nCopiers; c++ {
			copyProgs = append(copyProgs, []int{r.T.Int(2), r.T.Int(4), r.T.Int(4)})
		}
	}
	r.Describe("%d goroutines on one %s message, programs %v; %d goroutines copy it meanwhile and run %v on their copy", nG, c03Kinds[kind], progs, nCopiers, copyProgs)
	done := 0
	var copyPanic any
	var copies []*message.Message
	for c := 0; c < nCopiers; c++ {
		c := c
		r.Go(fmt.Sprintf("copier%d", c), func() {
			pv, pan := Call(func() {
				cp := m.Copy()
				copies = append(copies, cp)
				for _, op := range copyProgs[c] {
					c03Apply(cp, op)
				}
			})
			if pan {
				copyPanic = pv
			}
			done++
		})
	}
	for g := 0; g < nG; g++ {
		g := g
		r.Go(fmt.Sprintf("client%d", g), func() {
			for _, op := range progs[g] {
				o := &c03Op{client: g, op: op}
				ev++
				o.call = ev
				ops = append(ops, o)
				pv, pan := Call(func() { o.out = c03Apply(m, op) })
				ev++
				o.ret = ev
				if pan {
					o.pan = pv
				}
			}
			done++
		})
	}
	r.Sim.AtEnd(func() {
		if done != nG+nCopiers {
			r.Fail("C03.R4", "an Ack/Nack call is still blocked at quiescence", "%d of %d clients finished (%d of them work on a copy taken meanwhile)", done, nG+nCopiers, nCopiers)
			return
		}
		if copyPanic != nil {
			r.Fail("C03.R1", "Ack/Nack panicked under concurrency", "on a copy taken while the original was being settled: %v", copyPanic)
			return
		}
		for _, cp := range copies {
			if rawClosed(cp.Acked()) && rawClosed(cp.Nacked()) {
				r.Fail("C03.R3", "both Acked() and Nacked() closed", "on a copy taken while the original was being settled")
				return
			}
		}
		for _, o := range ops {
			if o.pan != nil {
				r.Fail("C03.R1", "Ack/Nack panicked under concurrency", "client %d %s panicked: %v", o.client, c03OpNames[o.op], o.pan)
				return
			}
		}
		if rawClosed(m.Acked()) && rawClosed(m.Nacked()) {
			r.Fail("C03.R3", "both Acked() and Nacked() closed", "after concurrent programs %v", progs)
			return
		}
		var pops []porcupine.Operation
		for _, o := range ops {
			pops = append(pops, porcupine.Operation{ClientId: o.client, Input: o.op, Call: o.call, Output: o.out, Return: o.ret})
		}
		model := porcupine.Model{
			Init: func() interface{} { return 0 },
			Step: func(state, input, output interface{}) (bool, interface{}) {
				ns, want := c03Model(state.(int), input.(int))
				return want == output.(bool), ns
			},
			Equal: func(a, b interface{}) bool { return a.(int) == b.(int) },
		}
		res := porcupine.CheckOperationsTimeout(model, pops, 20*time.Second)
		if res == porcupine.Illegal {
			desc := ""
			for _, o := range ops {
				desc += fmt.Sprintf("[c%d %s->%v @%d-%d] ", o.client, c03OpNames[o.op], o.out, o.call, o.ret)
			}
			r.Fail("C03.R5", "concurrent history is not linearizable against the first-wins model", "history: %s", desc)
		} else if res == porcupine.Unknown {
			r.Probe("porcupine-timeout")
		} else {
			r.Probe("histories-linearizable")
		}
		// all settle calls must agree on one winner
		winAck, winNack := false, false
		for _, o := range ops {
			if o.op == opAck && o.out {
				winAck = true
			}
			if o.op == opNack && o.out {
				winNack = true
			}
		}
		if winAck && winNack {
			r.Fail("C03.R6", "both an Ack and a Nack call reported success", "programs %v", progs)
		}
	})
}
