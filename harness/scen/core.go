// Package scen holds the simulated workloads and oracles, one file per property.
// This package is itself passed through simrewrite (without statement-level
// yields), so plain go statements, channel operations and sync primitives used
// here are scheduling points like those of the library.
package scen

import (
	"github.com/ThreeDotsLabs/watermill"
	"fmt"
	"sort"
	"strings"
	"time"

	"github.com/ThreeDotsLabs/watermill/verifsim/simrt"
)

// Violation of one rule of one property.
type Violation struct {
	Prop   string `json:"prop"`
	Rule   string `json:"rule"`
	Sig    string `json:"sig"` // stable class of the failure, phrased in harness-level facts
	Detail string `json:"detail"`
	Step   int64  `json:"step"`
	// AtEnd: reported by an end-of-run oracle (these presume quiescence and are void when the run hit its step cap)
	AtEnd bool `json:"at_end,omitempty"`
}

// Run is the per-execution context handed to scenario code.
type Run struct {
	Sim  *simrt.Sim
	T    *simrt.Tape // generation tape (workload, configuration, fault script)
	Prop string
	Scen string
	Tier string

	Viol   []Violation
	Faults map[string]int
	Probes map[string]int
	Desc   []string
	// HarnessErr is set for problems of the harness itself (never a VIOLATION)
	HarnessErr string
	// LivenessRule, when set, is the rule reported if the run does not quiesce even under the fair schedule
	LivenessRule string
	Fair         bool // this run uses the fair round-robin schedule
	Params       map[string]int
}

func (r *Run) Fail(rule, sig, format string, a ...any) {
	for _, v := range r.Viol {
		if v.Rule == rule && v.Sig == sig {
			return
		}
	}
	var st int64
	if r.Sim != nil {
		st = r.Sim.Step()
	}
	v := Violation{Prop: r.Prop, Rule: rule, Sig: sig, Detail: fmt.Sprintf(format, a...), Step: st, AtEnd: simrt.Dying()}
	r.Viol = append(r.Viol, v)
	r.Logf("VIOLATION %s [%s] %s", rule, sig, v.Detail)
}

func (r *Run) Fault(kind string) {
	r.Faults[kind]++
	r.Logf("fault fired: %s", kind)
}

func (r *Run) Probe(name string) { r.Probes[name]++ }

func (r *Run) Describe(format string, a ...any) {
	r.Desc = append(r.Desc, fmt.Sprintf(format, a...))
}

func (r *Run) Logf(format string, a ...any) {
	if r.Sim != nil {
		r.Sim.Logf(format, a...)
	}
}

func (r *Run) Param(name string, v int) {
	if r.Params == nil {
		r.Params = map[string]int{}
	}
	r.Params[name] = v
}

// Go starts a labelled harness goroutine.
func (r *Run) Go(label string, fn func()) { r.Sim.GoNamed(label, fn) }

// Call runs f and returns the recovered panic value (nil if none).
func Call(f func()) (pv any, panicked bool) {
	defer func() {
		if x := recover(); x != nil {
			pv, panicked = x, true
		}
	}()
	f()
	return nil, false
}

// Scenario is one generator + oracle set.
type Scenario struct {
	Prop string
	Name string
	// Setup draws the run configuration from r.T before the simulation starts.
	Setup func(r *Run) simrt.Config
	// Body is goroutine 0.
	Body func(r *Run)
	// Prefixes lists forced generation-tape prefixes that are enumerated completely (matrix cells).
	Prefixes func(tier string) [][]uint32
	// PointInject: the first generation draw is an injection step; the worker enumerates it over a base run.
	PointInject bool
	// PairPrefix, when set, gives the forced generation prefix that injects action kinds k1,k2 before steps i<j;
	// the thorough tier enumerates all pairs on small base runs.
	PairPrefix func(i, j int64, k1, k2 int) []uint32
	PairKinds  [][2]int
	// Weight among the property's scenarios for random runs (default 1).
	Weight int
	// Stubs / real components for the evidence file.
	Real  []string
	Stubs []string
}

var Registry []*Scenario

func Register(s *Scenario) { Registry = append(Registry, s) }

func ForProp(prop string) []*Scenario {
	var out []*Scenario
	for _, s := range Registry {
		if s.Prop == prop {
			out = append(out, s)
		}
	}
	sort.Slice(out, func(i, j int) bool { return out[i].Name < out[j].Name })
	return out
}

func Find(prop, name string) *Scenario {
	for _, s := range Registry {
		if s.Prop == prop && s.Name == name {
			return s
		}
	}
	return nil
}

// PickStrategy installs a schedule generator chosen swarm-style from the schedule tape's stream.
func (r *Run) PickStrategy() string {
	if r.Fair {
		r.Sim.SetStrategy(&simrt.RoundRobin{})
		return "fair"
	}
	rng := r.Sim.Tape.Rng()
	switch rng.IntN(9) {
	case 8:
		r.Sim.SetStrategy(&simrt.SiteDelay{Salt: rng.Uint64(), Den: 3 + rng.IntN(6), Max: 2 + rng.IntN(6), Inner: &simrt.RunToBlock{Den: 4}})
		return "site-delay"
	case 0, 1:
		r.Sim.SetStrategy(simrt.RandomWalk{})
		return "random"
	case 2:
		r.Sim.SetStrategy(&simrt.PCT{D: 1 + rng.IntN(3), Horizon: 300})
		return "pct"
	case 3:
		r.Sim.SetStrategy(&simrt.PCT{D: 1 + rng.IntN(3), Horizon: 2000})
		return "pct-long"
	case 4:
		r.Sim.SetStrategy(&simrt.RunToBlock{Den: 2 + rng.IntN(6), Budget: 1 + rng.IntN(4)})
		return "delay-bounded"
	case 5:
		r.Sim.SetStrategy(&simrt.RunToBlock{Den: 3 + rng.IntN(12)})
		return "run-to-block"
	case 6:
		r.Sim.SetStrategy(&simrt.RunToBlock{Den: 30})
		return "mostly-sequential"
	default:
		r.Sim.SetStrategy(simrt.RandomWalk{})
		return "random"
	}
}

// BaseConfig is the default simulation configuration.
func BaseConfig() simrt.Config {
	return simrt.Config{Horizon: time.Hour, StepCap: 60000, TraceCap: 400}
}

func short(s string, n int) string {
	if len(s) > n {
		return s[:n] + "…"
	}
	return s
}

func joinInts(xs []int) string {
	ss := make([]string, len(xs))
	for i, x := range xs {
		ss[i] = fmt.Sprint(x)
	}
	return strings.Join(ss, ",")
}

// LibGoroutinesAlive lists goroutines created by library code (creation site
// contains one of the substrings) that have not exited.
func LibGoroutinesAlive(s *simrt.Sim, createdIn ...string) []simrt.GInfo {
	var out []simrt.GInfo
	for _, g := range s.Goroutines() {
		if g.State == "exited" || g.Harness || g.Daemon || g.Lazy {
			continue
		}
		for _, sub := range createdIn {
			if strings.Contains(g.Created, sub) {
				out = append(out, g)
				break
			}
		}
	}
	return out
}

func rawClosed(ch <-chan struct{}) bool { return simrt.IsClosedRaw(ch) }

func nopLogger() watermill.LoggerAdapter { return watermill.NopLogger{} }

// LibGoroutinesCreatedBy lists live goroutines whose go statement was executed by exactly the named function(s) (suffix match).
func LibGoroutinesCreatedBy(s *simrt.Sim, fnSuffix ...string) []simrt.GInfo {
	var out []simrt.GInfo
	for _, g := range s.Goroutines() {
		if g.State == "exited" || g.Harness || g.Daemon || g.Lazy {
			continue
		}
		for _, suf := range fnSuffix {
			if strings.HasSuffix(g.Created, suf) {
				out = append(out, g)
				break
			}
		}
	}
	return out
}

// MaybeFine enables statement-level yields in the named package for num/den of the runs (decided on the schedule tape).
func MaybeFine(r *Run, c *simrt.Config, pkg string, num, den int) {
	c.FineNum, c.FineDen, c.FinePkg = num, den, pkg
}
