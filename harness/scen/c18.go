package scen

import (
	"errors"
	"context"
	"fmt"
	"strings"
	"time"

	"github.com/ThreeDotsLabs/watermill/components/cqrs"
	"github.com/ThreeDotsLabs/watermill/components/requestreply"
	"github.com/ThreeDotsLabs/watermill/message"
	"github.com/ThreeDotsLabs/watermill/pubsub/gochannel"
	"github.com/ThreeDotsLabs/watermill/verifsim/simrt"
)

// C18 — request-reply: replies reach only their requester and listeners always finish.

type c18Cmd struct {
	Caller int
}

type c18Result struct {
	Caller  int
	Attempt int
}

type c18Caller struct {
	id        int
	behaviour int // 0 SendWithReply, 1 drain all then cancel late, 2 read one then cancel late, 3 never read then cancel, 4 cancel before the reply
	failFirst int // handler fails that many first attempts for this caller's command
	failAll   bool
	delay     time.Duration // handler duration
	lateAfter time.Duration
	emptyErrText bool // the handler's errors for this caller have an empty text
	impatient bool // SendWithReply with a context that ends before the handler can have answered
	replies   []requestreply.Reply[c18Result]
	chClosed  bool
	sendErr   error
	done      bool
	replyCh   <-chan requestreply.Reply[c18Result]
}

// c18EmptyErr: an error value whose text is empty.
type c18EmptyErr struct{}

func (c18EmptyErr) Error() string { return "" }

func c18Body(r *Run) {
	t := r.T
	nCallers := 1 + t.Skewed(32)
	ackErrors := t.Chance(1, 2)
	var timeout *time.Duration
	if t.Chance(1, 3) {
		d := time.Duration(50+t.Int(2000)) * time.Millisecond
		if t.Chance(1, 2) {
			// short time-outs that coincide with the handlers' durations (multiples of 10 ms): reply and time-out race
			d = time.Duration(1+t.Int(4)) * 10 * time.Millisecond
		}
		timeout = &d
	}
	ps := gochannel.NewGoChannel(gochannel.Config{OutputChannelBuffer: int64(simrt.Pick(t, 0, 1, 3))}, nil)
	// commands travel on a Pub/Sub of their own, so that closing the Router (which closes its subscribers) leaves the
	// reply transport alone
	psCmd := gochannel.NewGoChannel(gochannel.Config{OutputChannelBuffer: int64(simrt.Pick(t, 0, 1, 3))}, nil)
	// a quarter of the runs: the Router is closed while handlers are running (every listener then has a time-out);
	// a third of the runs: somebody else's notifications, which this backend cannot even decode, share the reply topic
	midClose := t.Chance(1, 4)
	midCloseAt := time.Duration(5+t.Int(30)) * time.Millisecond
	foreign := 0
	if t.Chance(1, 3) {
		foreign = 1 + t.Int(4)
	}
	if midClose && timeout == nil {
		d := time.Duration(50+t.Int(500)) * time.Millisecond
		timeout = &d
	}
	replyPub := NewScriptedPublisher(r, "reply-publisher")
	replyPub.Inner = ps
	for i := t.Skewed(4); i > 0; i-- {
		replyPub.FailAt[1+t.Int(8)] = PubErr // transient failures of the reply publisher
	}
	finished := map[int]int{}
	finishedAt := map[int]time.Duration{} // when OnListenForReplyFinished ran
	startedAt := map[int]time.Duration{}  // when the caller issued its request
	// one run in three: failures of the reply publisher are tolerated by a ReplyPublishErrorHandler (it returns nil):
	// the command is then settled as if the reply had been sent, i.e. as AckCommandErrors says
	var tolerate requestreply.ReplyPublishErrorHandler
	tolerated := map[*message.Message]bool{}
	if len(replyPub.FailAt) > 0 && t.Chance(1, 3) {
		tolerate = func(topic string, m *message.Message, err error) error {
			tolerated[m] = true
			r.Probe("reply-publish-error-tolerated")
			return nil
		}
	}
	backend, err := requestreply.NewPubSubBackend[c18Result](requestreply.PubSubBackendConfig{
		ReplyPublishErrorHandler: tolerate,
		Publisher:              replyPub,
		SubscriberConstructor:  func(requestreply.PubSubBackendSubscribeParams) (message.Subscriber, error) { return ps, nil },
		GeneratePublishTopic:   func(requestreply.PubSubBackendPublishParams) (string, error) { return "replies", nil },
		GenerateSubscribeTopic: func(requestreply.PubSubBackendSubscribeParams) (string, error) { return "replies", nil },
		ListenForReplyTimeout:  timeout,
		AckCommandErrors:       ackErrors,
		OnListenForReplyFinished: func(ctx context.Context, p requestreply.PubSubBackendSubscribeParams) {
			if c, ok := p.Command.(*c18Cmd); ok {
				finished[c.Caller]++
				finishedAt[c.Caller] = r.Sim.Now()
			}
		},
	}, requestreply.BackendPubsubJSONMarshaler[c18Result]{})
	if err != nil {
		r.HarnessErr = err.Error()
		return
	}
	var callers []*c18Caller
	for i := 0; i < nCallers; i++ {
		c := &c18Caller{id: i, behaviour: t.Int(8)}
		if c.behaviour == 5 {
			c.behaviour = 0
		}
		if timeout != nil && t.Chance(1, 4) {
			c.behaviour = 5 // never reads and never cancels: only ListenForReplyTimeout ends the listener
		}
		switch t.Int(4) {
		case 1:
			c.failFirst = 1 + t.Int(2)
		case 2:
			c.failAll = true
		}
		c.delay = time.Duration(t.Int(3)) * 10 * time.Millisecond
		c.lateAfter = time.Duration(100+t.Int(400)) * time.Millisecond
		c.impatient = t.Chance(1, 3)
		c.emptyErrText = t.Chance(1, 6)
		callers = append(callers, c)
	}
	r.Describe("%d concurrent requests on one reply topic, AckCommandErrors=%v, ListenForReplyTimeout=%v, reply publisher fails on calls %v", nCallers, ackErrors, timeout, replyPub.FailAt)
	for _, c := range callers {
		r.Describe("caller %d: behaviour %d (0 SendWithReply, 1 drain then cancel, 2 read one then cancel, 3 never read then cancel, 4 cancel before reply, 5 never read, never cancel: time-out only, 6 let replies pile up, cancel, then read late, 7 like 2 on a context that never ends), handler fails first %d (all=%v), handler takes %v, cancels after %v", c.id, c.behaviour, c.failFirst, c.failAll, c.delay, c.lateAfter)
	}

	rig := newRouterRig(r, 30*time.Second)
	marsh := cqrs.JSONMarshaler{}
	// the command publisher fails on some calls (a broker hiccup after the listener has been set up): the request then
	// fails, and its listener is still taken down
	cmdPub := NewScriptedPublisher(r, "command-publisher")
	cmdPub.Inner = psCmd
	for i := t.Skewed(3); i > 0; i-- {
		cmdPub.FailAt[1+t.Int(8)] = PubErr
	}
	bus, err := cqrs.NewCommandBusWithConfig(cmdPub, cqrs.CommandBusConfig{
		GeneratePublishTopic: func(cqrs.CommandBusGeneratePublishTopicParams) (string, error) { return "commands", nil },
		Marshaler:            marsh,
	})
	if err != nil {
		r.HarnessErr = err.Error()
		return
	}
	proc, err := cqrs.NewCommandProcessorWithConfig(rig.Router, cqrs.CommandProcessorConfig{
		GenerateSubscribeTopic: func(cqrs.CommandProcessorGenerateSubscribeTopicParams) (string, error) { return "commands", nil },
		SubscriberConstructor:  func(cqrs.CommandProcessorSubscriberConstructorParams) (message.Subscriber, error) { return psCmd, nil },
		Marshaler:              marsh,
	})
	if err != nil {
		r.HarnessErr = err.Error()
		return
	}
	type handled struct {
		caller  int
		attempt int
		msg     *message.Message
		failed  bool
		pubCall *PubCall
	}
	var hs []*handled
	attempts := map[int]int{}
	var current = map[*message.Message]*handled{}
	replyPub.Hook = func(c *PubCall) {
		// which command is this the reply of? the notification's context is the handler's context
		for _, m := range c.Msgs {
			om := cqrs.OriginalMessageFromCtx(m.Context())
			h := current[om]
			if h == nil {
				// (the reply need not travel with the handler's context: its content names the request)
				if rp, uerr := (requestreply.BackendPubsubJSONMarshaler[c18Result]{}).UnmarshalReply(m); uerr == nil {
					for _, x := range hs {
						if x.caller == rp.HandlerResult.Caller && x.attempt == rp.HandlerResult.Attempt {
							h = x
						}
					}
				}
			}
			if h == nil {
				r.Fail("C18.R2", "a reply was published that belongs to no handled command", "%s", m.UUID)
				continue
			}
			om = h.msg
			h.pubCall = c
			if rawClosed(om.Acked()) || rawClosed(om.Nacked()) {
				r.Fail("C18.R2", "the command was settled before its reply had been published", "caller %d attempt %d", h.caller, h.attempt)
			}
		}
	}
	maxAttempts := 4 + len(replyPub.FailAt)
	herr := proc.AddHandlers(requestreply.NewCommandHandlerWithResult[c18Cmd, c18Result]("rr-handler", backend,
		func(ctx context.Context, cmd *c18Cmd) (c18Result, error) {
			c := callers[cmd.Caller]
			attempts[c.id]++
			h := &handled{caller: c.id, attempt: attempts[c.id], msg: cqrs.OriginalMessageFromCtx(ctx)}
			hs = append(hs, h)
			current[h.msg] = h
			if c.delay > 0 {
				time.Sleep(c.delay)
			}
			res := c18Result{Caller: c.id, Attempt: h.attempt}
			if (c.failAll && h.attempt < maxAttempts) || h.attempt <= c.failFirst {
				h.failed = true
				r.Fault("handler-error")
				if c.emptyErrText {
					return res, c18EmptyErr{} // an error whose text is empty is an error all the same
				}
				return res, fmt.Errorf("handler error for caller %d attempt %d", c.id, h.attempt)
			}
			return res, nil
		}))
	if herr != nil {
		r.HarnessErr = herr.Error()
		return
	}

	r.Sim.AtEnd(func() {
		for _, c := range callers {
			what := fmt.Sprintf("caller %d (behaviour %d)", c.id, c.behaviour)
			if !c.done {
				r.Fail("C18.R3", "a request-reply call never returned", "%s", what)
				continue
			}
			for _, rp := range c.replies {
				var ue requestreply.ReplyUnmarshalError
				if errors.As(rp.Error, &ue) {
					// (every reply the handlers of this run produce can be decoded)
					r.Fail("C18.R1", "a caller was handed a notification that was not produced for its own command (a foreign one that could not be decoded)", "%s: %v", what, rp.Error)
					continue
				}
				if rp.NotificationMessage == nil {
					// time-out style reply: it has to say so
					if rp.Error == nil {
						r.Fail("C18.R1", "a caller got an empty reply: neither the handler's result nor an error", "%s", what)
					}
					continue
				}
				if rp.HandlerResult.Caller != c.id {
					r.Fail("C18.R1", "a caller received the reply of another concurrent request", "%s got the result of caller %d", what, rp.HandlerResult.Caller)
				}
				wantErr := ""
				a := rp.HandlerResult.Attempt
				if (c.failAll && a < maxAttempts) || a <= c.failFirst {
					wantErr = fmt.Sprintf("handler error for caller %d attempt %d", c.id, a)
					if c.emptyErrText {
						wantErr = ""
					}
					if rp.Error == nil {
						r.Fail("C18.R1", "the reply to a failed command carries no error", "%s attempt %d (error text %q)", what, a, wantErr)
					}
				}
				gotErr := ""
				if rp.Error != nil {
					gotErr = rp.Error.Error()
				}
				if gotErr != wantErr {
					r.Fail("C18.R1", "a reply does not carry the handler's error text", "%s attempt %d: %q, expected %q", what, a, gotErr, wantErr)
				}
			}
			if c.sendErr != nil {
				continue
			}
			// the configured time-out ends the listener when it passes, whatever deadline the caller's own context has
			if timeout != nil && finished[c.id] >= 1 && r.Params["stalled"] == 0 {
				if took := finishedAt[c.id] - startedAt[c.id]; took > *timeout+5*time.Millisecond {
					r.Fail("C18.R3", "the reply listener outlived ListenForReplyTimeout", "%s: listening ended %v after the request was issued, ListenForReplyTimeout %v", what, took, *timeout)
				}
			}
			if finished[c.id] != 1 {
				sig := "OnListenForReplyFinished did not run exactly once for a finished request"
				if finished[c.id] == 0 {
					sig = "the reply listener never finished after the caller cancelled, its context ended or the timeout passed"
				}
				r.Fail("C18.R3", sig, "%s: OnListenForReplyFinished ran %d times, replies read %d", what, finished[c.id], len(c.replies))
			}
			if c.replyCh != nil {
				_, ok, got := simrt.TryRecvRaw(c.replyCh)
				for got && ok {
					_, ok, got = simrt.TryRecvRaw(c.replyCh)
				}
				if !got {
					r.Fail("C18.R3", "the reply channel was not closed after the request ended", "%s", what)
				}
			}
		}
		if alive := LibGoroutinesAlive(r.Sim, "requestreply."); len(alive) > 0 {
			r.Fail("C18.R3", "a reply listener goroutine is still alive at quiescence", "%d, e.g. created by %s, %s at %s", len(alive), alive[0].Created, alive[0].State, alive[0].Site)
		}
		// R2 settlement policy
		for _, h := range hs {
			toleratedFailure := false
			if h.pubCall != nil && h.pubCall.Err != nil {
				for _, m := range h.pubCall.Msgs {
					if tolerated[m] {
						toleratedFailure = true
					}
				}
			}
			if (h.pubCall == nil || h.pubCall.Err != nil) && !toleratedFailure {
				// no reply was published for this delivery: the command must not be acked
				if rawClosed(h.msg.Acked()) {
					r.Fail("C18.R2", "the command was acked although its reply was never published", "caller %d attempt %d failed=%v replyPublishError=%v AckCommandErrors=%v", h.caller, h.attempt, h.failed, h.pubCall != nil, ackErrors)
				}
				continue
			}
			wantAck := !h.failed || ackErrors
			acked, nacked := rawClosed(h.msg.Acked()), rawClosed(h.msg.Nacked())
			if acked != wantAck || nacked == wantAck {
				r.Fail("C18.R2", "the command was not settled as AckCommandErrors says", "caller %d attempt %d failed=%v: acked=%v nacked=%v AckCommandErrors=%v", h.caller, h.attempt, h.failed, acked, nacked, ackErrors)
			}
		}
	})

	rig.Start()
	if midClose {
		go func() {
			time.Sleep(midCloseAt)
			r.Fault("router-close-while-handlers-run")
			rig.Router.Close()
		}()
	}
	for k := 0; k < foreign; k++ {
		k := k
		go func() {
			time.Sleep(time.Duration(k*7) * time.Millisecond)
			m := message.NewMessage(fmt.Sprintf("foreign-%d", k), []byte(`"a reply of another backend with another result type"`))
			m.Metadata.Set(requestreply.OperationIDMetadataKey, fmt.Sprintf("somebody-elses-operation-%d", k))
			m.Metadata.Set(requestreply.HasErrorMetadataKey, "0")
			r.Fault("foreign-notification-on-the-reply-topic")
			ps.Publish("replies", m)
		}()
	}
	for _, c := range callers {
		c := c
		go func() {
			defer func() { c.done = true }()
			ctx, cancel := context.WithCancel(context.Background())
			defer func() {
				if c.behaviour != 5 {
					cancel() // behaviour 5: the caller's context stays alive for ever, only the listener's time-out may end it
				}
			}()
			cmd := &c18Cmd{Caller: c.id}
			startedAt[c.id] = r.Sim.Now()
			switch c.behaviour {
			case 0:
				// (one caller in three gives up early: before the handler can have answered)
				limit := 5 * time.Second
				if c.impatient {
					limit = 5 * time.Millisecond
					if c.delay > 0 && c.id%2 == 0 {
						limit = c.delay // the caller's patience ends at the very instant the handler answers
					}
					r.Fault("caller-context-ends-before-reply")
				}
				tctx, tcancel := context.WithTimeout(ctx, limit)
				defer tcancel()
				rp, err := requestreply.SendWithReply[c18Result](tctx, bus, backend, cmd)
				c.sendErr = nil
				if err == nil {
					c.replies = append(c.replies, rp)
				}
			default:
				sctx := ctx
				if c.behaviour == 7 {
					// a context that never ends: everything the request set up is taken down through the returned cancel
					// function — or, when sending fails, by SendWithReplies itself
					sctx = context.Background()
				}
				ch, rcancel, err := requestreply.SendWithReplies[c18Result](sctx, bus, backend, cmd)
				if err != nil {
					c.sendErr = err
					return
				}
				c.replyCh = ch
				switch c.behaviour {
				case 1:
					go func() {
						time.Sleep(c.lateAfter)
						r.Fault("caller-cancel")
						rcancel()
					}()
					for rp := range ch {
						c.replies = append(c.replies, rp)
					}
					c.chClosed = true
				case 2, 7:
					// (a reply may never come: its publication failed and was tolerated, or the router was closed)
					select {
					case rp, ok := <-ch:
						if ok {
							c.replies = append(c.replies, rp)
						}
					case <-time.After(c.lateAfter):
					}
					time.Sleep(c.lateAfter)
					r.Fault("caller-cancel")
					rcancel()
				case 3:
					r.Fault("caller-never-reads")
					time.Sleep(c.lateAfter)
					r.Fault("caller-cancel")
					rcancel()
				case 6:
					r.Fault("caller-reads-late")
					time.Sleep(c.lateAfter)
					go func() {
						r.Fault("caller-cancel")
						rcancel()
					}()
					for k := 0; k < 3; k++ {
						simrt.Yield()
					}
					for rp := range ch {
						c.replies = append(c.replies, rp)
					}
					c.chClosed = true
				case 5:
					r.Fault("caller-never-reads-never-cancels")
					_ = rcancel
					// keep the caller's context alive beyond the listener's time-out
					time.Sleep(*timeout + 5*time.Second)
				default:
					r.Fault("caller-cancel-before-reply")
					rcancel()
				}
			}
		}()
	}
	r.Sim.Quiesce()
	rig.Router.Close()
}

var _ = strings.Contains

func init() {
	Register(&Scenario{
		Prop: "C18", Name: "request-reply",
		Setup: func(r *Run) simrt.Config {
			c := BaseConfig()
			c.Horizon = 10 * time.Minute
			c.StepCap = 150000
			if r.T.Chance(1, 3) {
				c.ClockJumps, c.JumpMax, c.JumpWithin = 3, time.Second, 1500
				r.Param("stalled", 1)
			}
			return c
		},
		Body:  c18Body,
		Real:  []string{"components/requestreply (SendWithReply, SendWithReplies, PubSubBackend, handler, JSON marshaler)", "components/cqrs CommandBus/CommandProcessor", "message.Router", "pubsub/gochannel.GoChannel (commands and shared reply topic)"},
		Stubs: []string{"ScriptedPublisher wrapping the reply publisher (observation only)", "scripted handler outcomes", "caller behaviours"},
	})
}
