package scen

import (
	"context"
	"errors"
	"fmt"
	"math"
	"sync"
	"time"

	"github.com/ThreeDotsLabs/watermill/message"
	"github.com/ThreeDotsLabs/watermill/message/router/middleware"
	"github.com/ThreeDotsLabs/watermill/verifsim/simrt"
)

// C12 — Retry middleware: bounded attempts, back-off, first success wins, error kept.

type c12Attempt struct {
	start, end time.Duration
	failed     bool
	err        error
	outs       []*message.Message
}

func c12Body(r *Run) {
	t := r.T
	cfg := middleware.Retry{}
	cfg.MaxRetries = 1 + t.Int(8)
	cfg.InitialInterval = time.Duration(t.Int(51)) * time.Millisecond
	cfg.Multiplier = 1 + float64(t.Int(21))/10
	switch t.Int(4) {
	case 0:
		cfg.MaxInterval = cfg.InitialInterval
	case 1:
		cfg.MaxInterval = 2*cfg.InitialInterval + time.Millisecond
	case 2:
		cfg.MaxInterval = 100 * time.Millisecond
	default:
		cfg.MaxInterval = time.Second
	}
	cfg.RandomizationFactor = float64(t.Int(11)) / 10
	if t.Chance(1, 3) {
		cfg.MaxElapsedTime = time.Duration(1+t.Int(500)) * time.Millisecond
	}
	failFor := t.Int(cfg.MaxRetries + 3) // number of failing attempts before success
	forever := t.Chance(1, 4)
	hDur := time.Duration(t.Int(4)) * 5 * time.Millisecond
	cancelAt := time.Duration(-1)
	if t.Chance(1, 3) {
		cancelAt = time.Duration(t.Int(400)) * time.Millisecond
	}
	withOuts := t.Chance(1, 2)
	ctxShapedErrs := t.Chance(1, 4)
	r.Describe("Retry{MaxRetries:%d Initial:%v Mult:%.1f MaxInterval:%v RF:%.1f MaxElapsed:%v}; handler fails %d times (forever=%v), takes %v, failing attempts return outputs=%v; context cancelled at %v",
		cfg.MaxRetries, cfg.InitialInterval, cfg.Multiplier, cfg.MaxInterval, cfg.RandomizationFactor, cfg.MaxElapsedTime, failFor, forever, hDur, withOuts, cancelAt)

	var attempts []*c12Attempt
	var hooks []int
	cfg.OnRetryHook = func(n int, d time.Duration) { hooks = append(hooks, n) }
	h := func(m *message.Message) ([]*message.Message, error) {
		a := &c12Attempt{start: r.Sim.Now()}
		attempts = append(attempts, a)
		if hDur > 0 {
			time.Sleep(hDur)
		}
		a.end = r.Sim.Now()
		n := len(attempts)
		if forever || n <= failFor {
			a.failed = true
			a.err = fmt.Errorf("attempt %d failed", n)
			if ctxShapedErrs {
				// the failure is a time-out or cancellation further down (the message's own context is alive): an error like any other
				a.err = fmt.Errorf("attempt %d failed: downstream call: %w", n, []error{context.DeadlineExceeded, context.Canceled}[n%2])
			}
			r.Fault("handler-error")
			if withOuts {
				a.outs = []*message.Message{message.NewMessage(fmt.Sprintf("fail-out-%d", n), nil)}
			}
			return a.outs, a.err
		}
		a.outs = []*message.Message{message.NewMessage(fmt.Sprintf("ok-out-%d", n), nil)}
		return a.outs, nil
	}
	msg := message.NewMessage("m", []byte("p"))
	ctx, cancel := context.WithCancel(context.Background())
	msg.SetContext(ctx)
	cancelledAt := time.Duration(-1)
	if cancelAt >= 0 {
		go func() {
			time.Sleep(cancelAt)
			cancelledAt = r.Sim.Now()
			r.Fault("context-cancel")
			cancel()
		}()
	}
	var outs []*message.Message
	var err error
	returned := false
	pv, pan := Call(func() { outs, err = cfg.Middleware(h)(msg) })
	returned = true
	retAt := r.Sim.Now()
	cancel()
	if pan {
		r.Fail("C12.R0", "Retry panicked", "%v", pv)
		return
	}
	_ = returned
	n := len(attempts)
	// R2 bounded attempts, none after a success
	if n > 1+cfg.MaxRetries {
		r.Fail("C12.R2", "handler invoked more than 1+MaxRetries times", "%d attempts, MaxRetries=%d", n, cfg.MaxRetries)
	}
	for i, a := range attempts {
		if !a.failed && i != n-1 {
			r.Fail("C12.R2", "handler invoked again after a successful attempt", "attempt %d succeeded, %d attempts in total", i+1, n)
		}
	}
	last := attempts[n-1]
	// R1 / R7 / R5
	if err == nil {
		if last.failed {
			r.Fail("C12.R7", "Retry returned success although the last attempt failed", "attempts=%d", n)
		} else if len(outs) != len(last.outs) || (len(outs) > 0 && outs[0] != last.outs[0] && outs[0].UUID != last.outs[0].UUID) {
			r.Fail("C12.R1", "Retry did not return the outputs of the first successful attempt", "got %d outputs", len(outs))
		}
	} else {
		if !last.failed {
			r.Fail("C12.R1", "Retry returned an error although an attempt succeeded", "%v", err)
		} else if !errors.Is(err, last.err) && err.Error() != last.err.Error() {
			r.Fail("C12.R5", "Retry did not return the last attempt's error", "returned %q, last attempt's error %q", err, last.err)
		}
	}
	// ctx end: explicit cancel or MaxElapsedTime. Where the MaxElapsedTime clock starts is not stated: somewhere between
	// the invocation of the middleware (earliest end: used where giving up must be justified) and the end of the first
	// attempt (latest end: used where going on must be justified).
	ctxEnd := time.Duration(math.MaxInt64)
	ctxEndEarliest := time.Duration(math.MaxInt64)
	if cancelledAt >= 0 {
		ctxEnd, ctxEndEarliest = cancelledAt, cancelledAt
	}
	if cfg.MaxElapsedTime > 0 && attempts[0].failed {
		if e := attempts[0].end + cfg.MaxElapsedTime; e < ctxEnd {
			ctxEnd = e
		}
		// giving up is also justified when the limit would pass before the next retry could start
		nextWait := float64(cfg.InitialInterval) * math.Pow(cfg.Multiplier, float64(n-1))
		if nextWait > float64(cfg.MaxInterval) {
			nextWait = float64(cfg.MaxInterval)
		}
		nextWait *= 1 + cfg.RandomizationFactor
		if e := attempts[0].start + cfg.MaxElapsedTime - time.Duration(nextWait) - time.Microsecond; e < ctxEndEarliest {
			ctxEndEarliest = e
		}
	}
	// completeness: when nothing ended the context, a failing handler is retried MaxRetries times
	if last.failed && ctxEndEarliest > retAt && n != 1+cfg.MaxRetries {
		r.Fail("C12.R2", "Retry gave up before MaxRetries although neither the context ended nor MaxElapsedTime passed", "%d attempts, MaxRetries=%d, returned at %v", n, cfg.MaxRetries, retAt)
	}
	// R3 back-off lower bound, closed form
	for k := 1; k < n; k++ {
		gap := attempts[k].start - attempts[k-1].end
		ik := float64(cfg.InitialInterval) * math.Pow(cfg.Multiplier, float64(k-1))
		if ik > float64(cfg.MaxInterval) {
			ik = float64(cfg.MaxInterval)
		}
		want := time.Duration(ik*(1-cfg.RandomizationFactor)) - time.Microsecond
		exempt := cfg.MaxElapsedTime > 0 && attempts[k-1].end-attempts[0].end >= cfg.MaxElapsedTime
		if gap < want && !exempt {
			r.Fail("C12.R3", "a retry started earlier than the configured exponential back-off allows", "retry %d started %v after the previous attempt ended; min(Initial*Mult^(k-1),Max)*(1-RF) = %v", k, gap, want)
		}
		if gap > 0 {
			r.Probe("positive-backoff-observed")
		}
		// R6
		// (after a stall the timer and the context end look simultaneous to the process: not demanded then)
		if attempts[k].start > ctxEnd && gap > 0 && r.Params["stalled"] == 0 {
			r.Fail("C12.R6", "a retry was started after the message context had ended (positive back-off)", "retry %d started at %v, context ended at %v", k, attempts[k].start, ctxEnd)
		}
	}
	// R4 hook arguments 1,2,...,m
	for i, hn := range hooks {
		if hn != i+1 {
			r.Fail("C12.R4", "OnRetryHook arguments are not 1,2,... in order", "hooks=%v", hooks)
			break
		}
	}
	retries := n - 1
	failedRetries := 0
	for _, a := range attempts[1:] {
		if a.failed {
			failedRetries++
		}
	}
	// (the hook may be called when a retry is scheduled or after it failed: between one call per failed retry and one per
	// scheduled retry, the last of which may have been abandoned while waiting)
	if len(hooks) < failedRetries || len(hooks) > retries+1 {
		r.Fail("C12.R4", "OnRetryHook was not called once per (failed) retry", "hooks=%v retries=%d failedRetries=%d", hooks, retries, failedRetries)
	}
	if ctxEnd < retAt && last.failed {
		r.Probe("gave-up-on-context-end")
	}
}

// c12Concurrent: several messages are in flight in ONE Retry-wrapped handler; every message gets its own back-off schedule.
func c12Concurrent(r *Run) {
	t := r.T
	cfg := middleware.Retry{}
	cfg.MaxRetries = 2 + t.Int(5)
	cfg.InitialInterval = time.Duration(5+t.Int(46)) * time.Millisecond
	cfg.Multiplier = 1.5 + float64(t.Int(16))/10
	cfg.MaxInterval = 10 * time.Second
	cfg.RandomizationFactor = float64(t.Int(4)) / 10
	nMsgs := 2 + t.Skewed(3)
	type mstate struct {
		id       int
		failFor  int
		startAt  time.Duration
		attempts []*c12Attempt
		outs     []*message.Message
		err      error
		done     bool
	}
	states := map[string]*mstate{}
	var list []*mstate
	for i := 0; i < nMsgs; i++ {
		st := &mstate{id: i, failFor: t.Int(cfg.MaxRetries + 2), startAt: time.Duration(t.Int(300)) * time.Millisecond}
		states[fmt.Sprintf("m%d", i)] = st
		list = append(list, st)
	}
	r.Describe("one Retry{MaxRetries:%d Initial:%v Mult:%.1f RF:%.1f} instance shared by %d concurrent messages", cfg.MaxRetries, cfg.InitialInterval, cfg.Multiplier, cfg.RandomizationFactor, nMsgs)
	for _, st := range list {
		r.Describe("message m%d starts at %v, handler fails %d times", st.id, st.startAt, st.failFor)
	}
	mw := cfg.Middleware(func(m *message.Message) ([]*message.Message, error) {
		st := states[m.UUID]
		a := &c12Attempt{start: r.Sim.Now()}
		st.attempts = append(st.attempts, a)
		time.Sleep(time.Millisecond)
		a.end = r.Sim.Now()
		if len(st.attempts) <= st.failFor {
			a.failed = true
			a.err = fmt.Errorf("m%d attempt %d failed", st.id, len(st.attempts))
			r.Fault("handler-error")
			return nil, a.err
		}
		a.outs = []*message.Message{message.NewMessage(fmt.Sprintf("m%d-ok-%d", st.id, len(st.attempts)), nil)}
		return a.outs, nil
	})
	var wg sync.WaitGroup
	for _, st := range list {
		st := st
		wg.Add(1)
		go func() {
			defer wg.Done()
			time.Sleep(st.startAt)
			st.outs, st.err = mw(message.NewMessage(fmt.Sprintf("m%d", st.id), nil))
			st.done = true
		}()
	}
	wg.Wait()
	overlap := false
	for _, st := range list {
		what := fmt.Sprintf("message m%d (fails %d times, %d concurrent messages)", st.id, st.failFor, nMsgs)
		n := len(st.attempts)
		wantN := st.failFor + 1
		if wantN > cfg.MaxRetries+1 {
			wantN = cfg.MaxRetries + 1
		}
		if n != wantN {
			r.Fail("C12.R2", "with several messages in flight a message did not get its own bounded sequence of attempts", "%s: %d attempts, expected %d", what, n, wantN)
			continue
		}
		last := st.attempts[n-1]
		if (st.err == nil) != !last.failed {
			r.Fail("C12.R1", "with several messages in flight Retry did not return the outcome of the message's own last attempt", "%s: err=%v", what, st.err)
		}
		for k := 1; k < n; k++ {
			gap := st.attempts[k].start - st.attempts[k-1].end
			ik := float64(cfg.InitialInterval) * math.Pow(cfg.Multiplier, float64(k-1))
			if ik > float64(cfg.MaxInterval) {
				ik = float64(cfg.MaxInterval)
			}
			want := time.Duration(ik*(1-cfg.RandomizationFactor)) - time.Microsecond
			if gap < want {
				r.Fail("C12.R3", "with several messages in flight a retry started earlier than that message's exponential back-off allows", "%s: retry %d started %v after the previous attempt ended, lower bound %v", what, k, gap, want)
			}
		}
		for _, o := range list {
			if o != st && len(o.attempts) > 0 && len(st.attempts) > 0 && o.attempts[0].start < st.attempts[n-1].end && st.attempts[0].start < o.attempts[len(o.attempts)-1].end {
				overlap = true
			}
		}
	}
	if overlap {
		r.Probe("messages-overlapped-in-one-retry-instance")
	}
}

func init() {
	Register(&Scenario{
		Prop: "C12", Name: "retry",
		Setup: func(r *Run) simrt.Config {
			c := BaseConfig()
			c.Horizon = time.Minute
			if r.T.Chance(1, 3) {
				c.ClockJumps, c.JumpMax, c.JumpWithin = 3, 200*time.Millisecond, 60
				r.Param("stalled", 1)
			}
			return c
		},
		Body:   c12Body,
		Weight: 3,
		Real:   []string{"middleware.Retry", "github.com/cenkalti/backoff/v3 ExponentialBackOff (on the fake clock, global math/rand seeded)"},
		Stubs:  []string{"scripted handler outcome sequence", "context canceller"},
	})
	Register(&Scenario{
		Prop: "C12", Name: "retry-concurrent-messages",
		Setup: func(r *Run) simrt.Config {
			c := BaseConfig()
			c.Horizon = time.Minute
			return c
		},
		Body:   c12Concurrent,
		Weight: 1,
		Real:   []string{"middleware.Retry", "github.com/cenkalti/backoff/v3 ExponentialBackOff (on the fake clock, global math/rand seeded)"},
		Stubs:  []string{"scripted handler outcome sequences per message"},
	})
}
