package scen

import (
	"fmt"
	"time"

	"github.com/ThreeDotsLabs/watermill/message"
	"github.com/ThreeDotsLabs/watermill/pubsub/gochannel"
	"github.com/ThreeDotsLabs/watermill/verifsim/simrt"
)

// C06 — Router.Close is graceful: returns nil only when no handler runs or can start.

// c6LongHandler outlives every CloseTimeout by far: waiting for it is hanging.
const c6LongHandler = time.Minute

type c6Inv struct {
	handler      string
	uuid         string
	d            *Delivery // nil with GoChannel transport
	start, end   int64
	msg          *message.Message
}

type c6Close struct {
	who        string
	inv, ret   int64
	err        error
	inProgress []*c6Inv // invocations running at the instant the call returned
	badState   []string // R2 findings at that instant
	pubNotClosed []string // publishers of started handlers whose Close had not returned at that instant
	invAt      time.Duration
	retAt      time.Duration
}

type c6Handler struct {
	name  string
	topic string
	sub   *ScriptedSubscriber
	pub   *ScriptedPublisher
	dur   map[string]time.Duration
	h     *message.Handler
}

func c06Body(r *Run) {
	t := r.T
	inj := t.Small(1<<16, 500)
	useGoChannel := t.Chance(1, 3)
	nH := 1 + t.Skewed(3)
	nDec := t.Skewed(3)
	closeTimeout := time.Second
	nClosers := t.Skewed(8)
	if inj == 0 && nClosers == 0 {
		nClosers = 1
	}
	var closerDelay []time.Duration
	for i := 0; i < nClosers; i++ {
		closerDelay = append(closerDelay, time.Duration(t.Int(6))*50*time.Millisecond)
	}
	rig := newRouterRig(r, closeTimeout)
	var ps *gochannel.GoChannel
	if useGoChannel {
		ps = gochannel.NewGoChannel(gochannel.Config{OutputChannelBuffer: int64(simrt.Pick(t, 0, 1, 3))}, nil)
	}
	for i := 0; i < nDec; i++ {
		rig.Router.AddSubscriberDecorators(message.MessageTransformSubscriberDecorator(func(m *message.Message) {}))
	}
	earlyClose := false
	var ev int64
	tick := func() int64 { ev++; return ev }
	var invs []*c6Inv
	var closes []*c6Close
	var hs []*c6Handler
	type pubPlan struct {
		topic string
		uuid  string
	}
	var gcMsgs []pubPlan
	durs := []time.Duration{0, 0, 100 * time.Millisecond, c6LongHandler}
	for i := 0; i < nH; i++ {
		h := &c6Handler{name: fmt.Sprintf("h%d", i), topic: fmt.Sprintf("t%d", i), dur: map[string]time.Duration{}}
		h.sub = NewScriptedSubscriber(r, h.name+"-sub")
		h.sub.Lanes = 1 + t.Skewed(3)
		h.sub.MaxRedeliver = 0
		h.pub = NewScriptedPublisher(r, h.name+"-pub")
		n := 1 + t.Skewed(4)
		for m := 0; m < n; m++ {
			u := fmt.Sprintf("%s-m%d", h.name, m)
			h.dur[u] = durs[t.Int(len(durs))]
			if useGoChannel {
				gcMsgs = append(gcMsgs, pubPlan{h.topic, u})
			} else {
				h.sub.Script[h.topic] = append(h.sub.Script[h.topic], ScriptMsg{UUID: u, Payload: "x"})
			}
		}
		hs = append(hs, h)
		r.Describe("%s: durations %v, %d in flight", h.name, h.dur, h.sub.Lanes)
	}
	// one run in eight: the Subscribe of one handler fails, so Run returns an error while the other handlers may already
	// be working; a following Close must still not return nil while they do
	subscribeFails := -1
	if !useGoChannel && nH > 1 && t.Chance(1, 8) {
		subscribeFails = t.Int(nH)
		hs[subscribeFails].sub.SubscribeErrAt = 1
		earlyClose = true
		r.Fault("subscribe-error")
	}
	// one run in four: a handler is stopped on its own (Handler.Stop) while the others go on; its invocations in flight
	// still count for a later Close. One message in six makes its handler panic (once) when its time is up.
	stopHandler, stopDelay := -1, time.Duration(0)
	if nH > 1 && t.Chance(1, 4) {
		stopHandler = t.Int(nH)
		stopDelay = time.Duration(t.Int(6)) * 30 * time.Millisecond
	}
	// one run in eight: EVERY handler is stopped on its own (the router then closes itself) while invocations shorter
	// than CloseTimeout are in flight: whoever calls Close meanwhile gets nil only once they are over
	// (not in runs with clock jumps: a stall can make the router's own close time out, which the harness cannot see, and
	// after a timed-out close a repeated Close returns nil whatever is still running)
	stopAll := stopHandler < 0 && subscribeFails < 0 && t.Chance(1, 8) && r.Params["clock_jumps"] == 0
	if stopAll {
		stopDelay = time.Duration(t.Int(4)) * 20 * time.Millisecond
		for _, h := range hs {
			for u, d := range h.dur {
				if d > 100*time.Millisecond {
					h.dur[u] = 100 * time.Millisecond
				}
			}
		}
	}
	// one run in eight of the rest: the context given to Run is cancelled while invocations shorter than CloseTimeout are in
	// flight; the router closes itself, and Run returns only once that close is through (same restrictions as above)
	cancelRun := !stopAll && stopHandler < 0 && subscribeFails < 0 && t.Chance(1, 8) && r.Params["clock_jumps"] == 0
	cancelDelay := time.Duration(0)
	if cancelRun {
		cancelDelay = time.Duration(t.Int(5)) * 20 * time.Millisecond
		for _, h := range hs {
			for u, d := range h.dur {
				if d > 100*time.Millisecond {
					h.dur[u] = 100 * time.Millisecond
				}
			}
		}
	}
	panics := map[string]bool{}
	for i := 0; i < nH; i++ {
		for m := 0; m < len(hs[i].dur); m++ {
			if t.Chance(1, 6) {
				panics[fmt.Sprintf("%s-m%d", hs[i].name, m)] = true
			}
		}
	}
	// a quarter of the runs: publishers whose Close takes a while (they flush); a fifth of the scripted-subscriber runs:
	// subscribers whose Close waits until the message in flight is settled (as broker clients do)
	slowPubClose := t.Chance(1, 4)
	// (only without subscriber decorators: the transform decorator may drop a message unsettled when the subscription
	// ends, which such a subscriber would wait for for ever)
	// (and not together with a cancelled Run context: an implementation may then issue the Close itself, and a time-out
	// of that call — the subscriber waiting for a message the router's context decorator dropped — would go unseen)
	subCloseWaits := !useGoChannel && nDec == 0 && !cancelRun && t.Chance(1, 5)
	for _, h := range hs {
		if slowPubClose {
			h.pub.CloseDelay = 50 * time.Millisecond
		}
		h.sub.CloseWaits = subCloseWaits
	}
	r.Describe("handler stopped on its own: %d after %v; panicking messages: %v; slow publisher Close=%v; subscriber Close waits for settlement=%v; Run context cancelled=%v after %v", stopHandler, stopDelay, panics, slowPubClose, subCloseWaits, cancelRun, cancelDelay)
	r.Describe("transport gochannel=%v, %d subscriber decorators, CloseTimeout=%v, %d concurrent closers (delays %v), injected Close before step %d, Subscribe of handler %d fails", useGoChannel, nDec, closeTimeout, nClosers, closerDelay, inj, subscribeFails)
	r.Param("inject_step", inj)

	for _, h := range hs {
		h := h
		var sub message.Subscriber = h.sub
		if useGoChannel {
			sub = ps
		}
		h.h = rig.Router.AddHandler(h.name, h.topic, sub, "out", h.pub, func(m *message.Message) ([]*message.Message, error) {
			iv := &c6Inv{handler: h.name, uuid: m.UUID, start: tick(), msg: m}
			if !useGoChannel {
				iv.d = h.sub.ByMsg[m]
			}
			invs = append(invs, iv)
			r.Logf("%s starts %s", h.name, m.UUID)
			if d := h.dur[m.UUID]; d > 0 {
				if d > closeTimeout {
					r.Fault("handler-outlives-close-timeout")
				}
				time.Sleep(d)
			}
			iv.end = tick()
			r.Logf("%s ends %s", h.name, m.UUID)
			if panics[m.UUID] {
				panics[m.UUID] = false
				r.Fault("handler-panic")
				panic("scripted handler panic")
			}
			return []*message.Message{message.NewMessage(m.UUID+">o", []byte("o"))}, nil
		})
	}
	running := func() []*c6Inv {
		var out []*c6Inv
		for _, iv := range invs {
			if iv.end == 0 {
				out = append(out, iv)
			}
		}
		return out
	}
	runInProgressAtReturn := -1
	doClose := func(who string) {
		c := &c6Close{who: who, inv: tick(), invAt: r.Sim.Now()}
		closes = append(closes, c)
		if !rig.Router.IsRunning() {
			// closing a router that is not running yet is outside the property: only "every call returns" is demanded
			earlyClose = true
		}
		r.Fault("router-close")
		r.Logf("%s: Router.Close() invoked", who)
		pv, pan := Call(func() { c.err = rig.Router.Close() })
		if pan {
			r.Fail("C06.R4", "Router.Close panicked", "%s: %v", who, pv)
		}
		c.ret = tick()
		c.retAt = r.Sim.Now()
		c.inProgress = running()
		// "closes every handler's subscriber and publisher": when nil comes back the publishers' Close calls have returned
		if c.err == nil && !earlyClose && rig.Router.IsRunning() {
			for i, h := range hs {
				if stopAll || i == stopHandler || i == subscribeFails || len(h.sub.Subscribes) == 0 && !useGoChannel {
					continue
				}
				if h.h != nil && rawClosed(h.h.Started()) && h.pub.ClosesDone == 0 {
					c.pubNotClosed = append(c.pubNotClosed, fmt.Sprintf("the publisher of %s is not closed yet (Close calls begun %d, returned %d)", h.name, h.pub.Closes, h.pub.ClosesDone))
				}
			}
		}
		if c.err != nil {
			r.Fault("close-timeout-expired")
		}
		// R2 at this instant (only meaningful for a nil return, evaluated at the end)
		for _, h := range hs {
			for _, d := range h.sub.Deliveries {
				var iv *c6Inv
				for _, x := range invs {
					if x.d == d {
						iv = x
					}
				}
				switch {
				case iv == nil && d.Acked():
					c.badState = append(c.badState, fmt.Sprintf("%s acked but never handled", d.Msg.UUID))
				case iv != nil && iv.end != 0 && !d.Settled():
					c.badState = append(c.badState, fmt.Sprintf("%s handled to completion but not settled", d.Msg.UUID))
				}
			}
		}
		r.Logf("%s: Router.Close() returned %v (handlers in progress: %d)", who, c.err, len(c.inProgress))
	}
	if inj > 0 {
		r.Sim.InjectAt(int64(inj), "injected-close", func() {
			r.Fault("point-injection")
			doClose("injected")
		})
	}

	r.Sim.AtEnd(func() {
		anyErr := false
		for _, c := range closes {
			if c.ret == 0 {
				r.Fail("C06.R4", "a Router.Close call never returned", "%s invoked at ev %d", c.who, c.inv)
				return
			}
			if c.err != nil {
				anyErr = true
			}
		}
		if earlyClose {
			// a Close before the router runs (or after Run failed) still must not claim a graceful close while
			// handlers run: the nil-return rules below apply; what Run does afterwards is outside the property
			r.Probe("close-before-running")
		}
		// "returns an error instead of hanging": a call that waits for the long handler (a minute) hangs. How the
		// timeout is split over the phases of the shutdown and over queued callers is the router's business: a
		// generous multiple of CloseTimeout per caller is allowed.
		if r.Params["clock_jumps"] == 0 {
			for _, c := range closes {
				if d := c.retAt - c.invAt; d > time.Duration(4*(len(closes)+1))*closeTimeout {
					r.Fail("C06.R3", "a Router.Close call took longer than CloseTimeout", "%s took %v of simulated time, CloseTimeout %v, returned %v", c.who, d, closeTimeout, c.err)
				}
			}
		}
		var firstNil *c6Close
		for _, c := range closes {
			if c.err == nil && !anyErr {
				if firstNil == nil || c.ret < firstNil.ret {
					firstNil = c
				}
				if len(c.inProgress) > 0 {
					iv := c.inProgress[0]
					r.Fail("C06.R1", "Router.Close returned nil while a handler invocation was in progress", "%s returned nil at ev %d; %s is handling %s since ev %d", c.who, c.ret, iv.handler, iv.uuid, iv.start)
				}
				for _, iv := range invs {
					if iv.start > c.ret {
						r.Fail("C06.R1", "a handler invocation started after Router.Close had returned nil", "%s returned nil at ev %d; %s started %s at ev %d", c.who, c.ret, iv.handler, iv.uuid, iv.start)
					}
				}
				for _, b := range c.pubNotClosed {
					r.Fail("C06.R6", "Router.Close returned nil before the publisher of a started handler was closed", "%s: %s", c.who, b)
				}
				for _, b := range c.badState {
					r.Fail("C06.R2", "when Close returned nil an emitted message was neither (handled and settled) nor (unhandled and unacked)", "%s: %s", c.who, b)
				}
			}
		}
		if firstNil != nil {
			// messages not handled by then must never be acked later
			for _, h := range hs {
				for _, d := range h.sub.Deliveries {
					handled := false
					for _, x := range invs {
						if x.d == d {
							handled = true
						}
					}
					if !handled && d.Acked() {
						r.Fail("C06.R2", "a message that was never handled got acked", "%s", d.Msg.UUID)
					}
				}
			}
			if runInProgressAtReturn > 0 && !earlyClose {
				r.Fail("C06.R5", "Router.Run returned while handler invocations were still in progress although Close returned nil", "%d in progress", runInProgressAtReturn)
			}
		}
		if len(closes) > 0 && !rig.RunReturned && !earlyClose {
			r.Fail("C06.R5", "Router.Run did not return after Close", "")
		}
		// (a subscriber whose Close waits for settlement never lets go of a message that the router's context decorator
		// dropped unsettled when the subscription ended: the close then times out, and what it promises is void)
		if len(closes) > 0 && !useGoChannel && !earlyClose && !(subCloseWaits && anyErr) {
			for i, h := range hs {
				if len(h.sub.Subscribes) == 0 {
					continue // never started
				}
				if i == stopHandler || stopAll {
					continue // stopped on its own: no longer one of the router's handlers when Close came
				}
				// (after the Run context was cancelled the handlers have ended through their own context, like stopped ones:
				// "we are closing subscriber just when entire router is closed" — their publishers are closed all the same)
				if h.sub.Closes == 0 && !cancelRun {
					r.Fail("C06.R6", "Router.Close did not close a started handler's subscriber", "%s: Subscriber.Close() calls = 0", h.name)
				}
				if h.pub.Closes == 0 {
					r.Fail("C06.R6", "Router.Close did not close a started handler's publisher", "%s: Publisher.Close() calls = 0", h.name)
				}
			}
		}
		for _, c := range closes {
			if c.err != nil {
				r.Probe("close-returned-timeout-error")
			}
		}
		for _, c := range closes {
			if len(c.inProgress) > 0 || c.err != nil {
				continue
			}
			for _, iv := range invs {
				if iv.start < c.inv && iv.end > c.inv {
					r.Probe("close-waited-for-running-handler")
				}
			}
		}
	})

	runDone := make(chan struct{})
	go func() {
		pv, pan := Call(func() { rig.RunErr = rig.Router.Run(rig.ctx) })
		rig.RunPanic = pv
		rig.RunReturned = true
		close(runDone)
		runInProgressAtReturn = len(running())
		// (the property says when Run returns, not what: only a panic is held against it)
		if pan && !earlyClose {
			r.Fail("C06.R5", "Router.Run failed", "%v %v", rig.RunErr, pv)
		}
		r.Logf("Router.Run returned (handlers in progress: %d)", runInProgressAtReturn)
	}()
	if useGoChannel {
		go func() {
			<-rig.Router.Running()
			for _, p := range gcMsgs {
				if err := ps.Publish(p.topic, message.NewMessage(p.uuid, []byte("x"))); err != nil {
					return
				}
			}
		}()
	}
	if cancelRun {
		go func() {
			select {
			case <-rig.Router.Running():
			case <-runDone:
				return
			}
			time.Sleep(cancelDelay)
			r.Fault("run-context-cancel")
			r.Logf("the context given to Run is cancelled")
			rig.cancel()
		}()
	}
	if stopAll {
		for _, h := range hs {
			hh := h.h
			go func() {
				select {
				case <-hh.Started():
				case <-runDone:
					return
				}
				time.Sleep(stopDelay)
				r.Fault("handler-stop")
				hh.Stop()
			}()
		}
	}
	if stopHandler >= 0 {
		go func() {
			hh := hs[stopHandler].h
			select {
			case <-hh.Started():
			case <-runDone:
				return
			}
			time.Sleep(stopDelay)
			r.Fault("handler-stop")
			r.Logf("%s: Handler.Stop()", hs[stopHandler].name)
			hh.Stop()
		}()
	}
	for i := 0; i < nClosers; i++ {
		i := i
		go func() {
			select {
			case <-rig.Router.Running():
			case <-runDone: // Run failed during start-up
			}
			time.Sleep(closerDelay[i])
			doClose(fmt.Sprintf("closer%d", i))
		}()
	}
	r.Sim.Quiesce()
	// a last, repeated Close after everything settled
	doClose("final")
}

func init() {
	real := []string{"message.Router (Run, Close, waitForHandlers, handler loop, handleClose, handleMessage)", "message.MessageTransformSubscriberDecorator", "pubsub/sync.WaitGroupTimeout", "pubsub/gochannel.GoChannel (one third of the runs)"}
	stubs := []string{"ScriptedSubscriber (two thirds of the runs)", "ScriptedPublisher", "sync.* -> vsync"}
	Register(&Scenario{
		Prop: "C06", Name: "close-points", PointInject: true,
		Setup: func(r *Run) simrt.Config {
			c := BaseConfig()
			c.Horizon = 10 * time.Minute
			return c
		},
		Body: c06Body, Real: real, Stubs: stubs,
	})
	Register(&Scenario{
		Prop: "C06", Name: "close-with-clock-jumps",
		Setup: func(r *Run) simrt.Config {
			c := BaseConfig()
			c.Horizon = 10 * time.Minute
			c.ClockJumps, c.JumpMax, c.JumpWithin = 3, 3*time.Second, 600
			r.Param("clock_jumps", 1)
			return c
		},
		Body: c06Body, Real: real, Stubs: stubs,
	})
	Register(&Scenario{
		Prop: "C06", Name: "close-points-fine",
		Setup: func(r *Run) simrt.Config {
			c := BaseConfig()
			c.Horizon = 10 * time.Minute
			c.Fine = true
			c.FinePkg = "watermill/message."
			return c
		},
		Body: c06Body, Real: real, Stubs: stubs,
	})
}
