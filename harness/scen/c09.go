package scen

import (
	"errors"
	"fmt"
	"strings"
	"time"

	"github.com/ThreeDotsLabs/watermill/message"
	"github.com/ThreeDotsLabs/watermill/verifsim/simrt"
)

// C09 — Middlewares nest in registration order per handler; decorators apply in order.

type c9Handler struct {
	name   string
	late   bool
	sub    *ScriptedSubscriber
	pub    *ScriptedPublisher
	h      *message.Handler
	want   []string // expected middleware tags, outermost first
	traces map[*message.Message][]string
	added  bool
	outTopic string
	// reborn: registered under the name of a handler that was stopped before; tolerated: that predecessor's own middleware tags
	reborn    bool
	tolerated []string
}

func c09Body(r *Run) {
	t := r.T
	k := t.Int(21)      // program length; forced by the enumeration for k<=6
	code := t.Int(1 << 30) // base-3 program for the exhaustive part
	exhaustive := t.Int(2) == 1
	var prog []int // 0 router-level, 1.. handler index+1
	nH := 2
	nLate := 0
	nPubDec, nSubDec := 0, 0
	if exhaustive {
		if k > 6 {
			k = 6
		}
		c := code
		for i := 0; i < k; i++ {
			prog = append(prog, c%3)
			c /= 3
		}
	} else {
		nH = 1 + t.Int(4)
		nLate = t.Int(3)
		nPubDec = t.Int(6)
		nSubDec = t.Int(6)
		for i := 0; i < k; i++ {
			prog = append(prog, t.Int(nH+nLate+1))
		}
	}
	rig := newRouterRig(r, 30*time.Second)
	var hs []*c9Handler
	// in the random programs one handler (never the first) may have the empty name, and one may publish to the empty topic
	// (a publisher that routes by metadata needs none)
	unnamed, noTopic := -1, -1
	if !exhaustive && nH+nLate > 1 && t.Chance(1, 4) {
		unnamed = 1 + t.Int(nH+nLate-1)
	}
	if !exhaustive && t.Chance(1, 4) {
		noTopic = t.Int(nH + nLate)
	}
	for i := 0; i < nH+nLate; i++ {
		h := &c9Handler{name: fmt.Sprintf("H%d", i), late: i >= nH, traces: map[*message.Message][]string{}}
		if i == unnamed {
			h.name = ""
		}
		h.outTopic = "out-" + h.name
		if i == noTopic {
			h.outTopic = ""
		}
		h.sub = NewScriptedSubscriber(r, h.name+"-sub")
		h.sub.Script["in-"+h.name] = []ScriptMsg{{UUID: h.name + "-m0", Payload: "x"}, {UUID: h.name + "-m1", Payload: "y"}}
		h.pub = NewScriptedPublisher(r, h.name+"-pub")
		hs = append(hs, h)
	}
	mkMW := func(tag string) message.HandlerMiddleware {
		return func(next message.HandlerFunc) message.HandlerFunc {
			return func(m *message.Message) ([]*message.Message, error) {
				cur := currentC9(hs, m)
				if cur != nil {
					cur.traces[m] = append(cur.traces[m], "enter:"+tag)
				}
				o, err := next(m)
				if cur != nil {
					cur.traces[m] = append(cur.traces[m], "leave:"+tag)
				}
				return o, err
			}
		}
	}
	// in a third of the random runs the application hands the router subscribers that it has already wrapped in a
	// MessageTransformSubscriberDecorator of its own
	preDecorated := !exhaustive && t.Chance(1, 3)
	addHandler := func(h *c9Handler) {
		if h.added {
			return
		}
		h.added = true
		var hsub message.Subscriber = h.sub
		if preDecorated {
			hsub, _ = message.MessageTransformSubscriberDecorator(func(m *message.Message) {
				m.Metadata.Set("subtrace", strings.TrimPrefix(m.Metadata.Get("subtrace")+",app", ","))
			})(h.sub)
		}
		h.h = rig.Router.AddHandler(h.name, "in-"+h.name, hsub, h.outTopic, h.pub, func(m *message.Message) ([]*message.Message, error) {
			h.traces[m] = append(h.traces[m], "handler")
			o := message.NewMessage(m.UUID+">out", []byte("o"))
			return []*message.Message{o}, nil
		})
	}
	// in some runs one publisher decorator (not the one that is applied first, i.e. not the last of the list) fails once
	// when the first late handler is started; RunHandlers reports it and is simply called again
	built := map[int]int{}
	failDec := -1
	if nLate > 0 && nPubDec > 1 && t.Chance(1, 3) {
		failDec = t.Int(nPubDec - 1)
	}
	builtSub := map[int]int{}
	failSubDec := -1
	if nLate > 0 && nSubDec > 0 && failDec < 0 && t.Chance(1, 3) {
		failSubDec = t.Int(nSubDec)
	}
	// in some runs an early handler is stopped while the late handlers are being started
	stopEarly := -1
	if nLate > 0 && t.Chance(1, 3) {
		stopEarly = t.Int(nH)
	}
	var routerTags []string
	var wantPub, wantSub []string
	var desc []string
	// decorators (all before Run), in several calls
	for i := 0; i < nPubDec; {
		n := 1 + t.Int(nPubDec-i)
		var decs []message.PublisherDecorator
		for j := 0; j < n; j++ {
			tag := fmt.Sprintf("p%d", i+j)
			wantPub = append(wantPub, tag)
			real := message.MessageTransformPublisherDecorator(func(m *message.Message) {
				m.Metadata.Set("pubtrace", strings.TrimPrefix(m.Metadata.Get("pubtrace")+","+tag, ","))
			})
			idx := i + j
			decs = append(decs, func(pub message.Publisher) (message.Publisher, error) {
				built[idx]++
				if idx == failDec && built[idx] == nH+1 {
					// a transient failure while the first late handler is being started
					r.Fault("decorator-constructor-error")
					return nil, errors.New("transient decorator failure")
				}
				return real(pub)
			})
		}
		rig.Router.AddPublisherDecorators(decs...)
		// the caller's slice is the caller's: it is reused (overwritten) after the call
		for k := range decs {
			decs[k] = message.MessageTransformPublisherDecorator(func(m *message.Message) {
				m.Metadata.Set("pubtrace", strings.TrimPrefix(m.Metadata.Get("pubtrace")+",SCRIBBLED-BY-THE-CALLER-AFTER-THE-CALL", ","))
			})
		}
		i += n
	}
	for i := 0; i < nSubDec; {
		n := 1 + t.Int(nSubDec-i)
		var decs []message.SubscriberDecorator
		for j := 0; j < n; j++ {
			tag := fmt.Sprintf("s%d", i+j)
			wantSub = append(wantSub, tag)
			realS := message.MessageTransformSubscriberDecorator(func(m *message.Message) {
				m.Metadata.Set("subtrace", strings.TrimPrefix(m.Metadata.Get("subtrace")+","+tag, ","))
			})
			sidx := i + j
			decs = append(decs, func(sub message.Subscriber) (message.Subscriber, error) {
				builtSub[sidx]++
				if sidx == failSubDec && builtSub[sidx] == nH+1 {
					r.Fault("decorator-constructor-error")
					return nil, errors.New("transient subscriber decorator failure")
				}
				return realS(sub)
			})
		}
		rig.Router.AddSubscriberDecorators(decs...)
		for k := range decs {
			decs[k] = message.MessageTransformSubscriberDecorator(func(m *message.Message) {
				m.Metadata.Set("subtrace", strings.TrimPrefix(m.Metadata.Get("subtrace")+",SCRIBBLED-BY-THE-CALLER-AFTER-THE-CALL", ","))
			})
		}
		i += n
	}
	// registrations: early part (router-level + early handlers) before Run
	var lateRegs [][2]int // (handler index, tag number) for late handlers, kept in program order
	for i, op := range prog {
		tag := fmt.Sprintf("mw%d", i)
		// random programs: one AddMiddleware call may register several middlewares at once
		tags := []string{tag}
		if !exhaustive && (op == 0 || !hs[op-1].late) {
			for j := t.Skewed(4); j > 0; j-- {
				tags = append(tags, fmt.Sprintf("%s.%d", tag, len(tags)))
			}
		}
		var mws []message.HandlerMiddleware
		for _, tg := range tags {
			mws = append(mws, mkMW(tg))
		}
		if op == 0 {
			rig.Router.AddMiddleware(mws...)
			routerTags = append(routerTags, tags...)
			for _, h := range hs {
				h.want = append(h.want, tags...)
			}
			desc = append(desc, "R:"+strings.Join(tags, "+"))
			continue
		}
		h := hs[op-1]
		if h.late {
			lateRegs = append(lateRegs, [2]int{op - 1, i})
			continue
		}
		addHandler(h)
		h.h.AddMiddleware(mws...)
		h.want = append(h.want, tags...)
		desc = append(desc, h.name+":"+strings.Join(tags, "+"))
	}
	for _, h := range hs {
		if !h.late {
			addHandler(h)
		}
	}
	r.Describe("registration program (in order): %s; publisher decorators %v; subscriber decorators %v; late handlers %d with %d registrations; failing decorator index %d; early handler stopped meanwhile %d", strings.Join(desc, " "), wantPub, wantSub, nLate, len(lateRegs), failDec, stopEarly)

	rebornStopped := false // hs[0] was stopped so that a new handler could take its name
	r.Sim.AtEnd(func() {
		for _, h := range hs {
			if !h.added {
				continue
			}
			var want []string
			for _, tg := range h.want {
				want = append(want, "enter:"+tg)
			}
			want = append(want, "handler")
			for i := len(h.want) - 1; i >= 0; i-- {
				want = append(want, "leave:"+h.want[i])
			}
			stopped := (stopEarly >= 0 && h == hs[stopEarly]) || (rebornStopped && h == hs[0])
			if len(h.sub.Deliveries) == 0 && !stopped && h.sub.Subscribes["in-"+h.name] > 0 {
				r.Fail("C09.R3", "a started handler received no message", "%s", h.name)
			}
			for _, d := range h.sub.Deliveries {
				got := h.traces[d.Msg]
				if len(h.tolerated) > 0 {
					var kept []string
					for _, g := range got {
						drop := false
						for _, tg := range h.tolerated {
							if g == "enter:"+tg || g == "leave:"+tg {
								drop = true
							}
						}
						if !drop {
							kept = append(kept, g)
						}
					}
					got = kept
				}
				if stopped && len(got) == 0 {
					continue // emitted while the handler was being stopped: never handled
				}
				if strings.Join(got, " ") != strings.Join(want, " ") {
					sig := "middlewares of a handler are not nested in registration order"
					for _, g := range got {
						ok := false
						for _, w := range want {
							if g == w {
								ok = true
							}
						}
						if !ok {
							sig = "a handler ran a middleware that was not registered for it"
						}
					}
					if len(got) < len(want) && sig == "middlewares of a handler are not nested in registration order" {
						sig = "a handler did not run all of its middlewares"
					}
					r.Fail("C09.R1", sig, "%s message %s: trace %v, expected %v", h.name, d.Msg.UUID, got, want)
				}
				wantTrace := strings.Join(wantSub, ",")
				if preDecorated {
					wantTrace = strings.TrimSuffix("app,"+wantTrace, ",")
				}
				if st := d.Msg.Metadata.Get("subtrace"); st != wantTrace {
					r.Fail("C09.R2", "subscriber decorators did not act on incoming messages in the order they were added", "%s message %s: %q expected %q", h.name, d.Msg.UUID, st, wantTrace)
				}
			}
			for _, c := range h.pub.Calls {
				for _, m := range c.Snap {
					if pt := m.Metadata.Get("pubtrace"); pt != strings.Join(wantPub, ",") {
						r.Fail("C09.R2", "publisher decorators did not act on outgoing messages in the order they were added", "%s output %s: %q expected %q", h.name, m.UUID, pt, strings.Join(wantPub, ","))
					}
				}
			}
			if len(h.pub.Calls) != len(h.sub.Deliveries) && !stopped {
				r.Fail("C09.R3", "not every handled message produced a publish call", "%s: %d deliveries, %d publish calls", h.name, len(h.sub.Deliveries), len(h.pub.Calls))
			}
		}
	})

	if nH > 0 && t.Chance(1, 4) {
		// an application registers a handler under a name that is taken, and recovers from the DuplicateHandlerNameError
		// panic: the rejected call changes nothing for the handler that owns the name
		dup := hs[t.Int(nH)]
		pv, pan := Call(func() {
			rig.Router.AddNoPublisherHandler(dup.name, "in-duplicate", NewScriptedSubscriber(r, "dup-sub"), func(m *message.Message) error { return nil })
		})
		if _, ok := pv.(message.DuplicateHandlerNameError); pan && ok {
			r.Fault("rejected-duplicate-registration")
		} else {
			r.Probe("duplicate-registration-not-rejected-with-DuplicateHandlerNameError")
		}
	}
	rig.Start()
	// in some runs the late handlers are registered side by side, one goroutine per handler (each handler's own
	// middlewares keep their order; the router-level ones were all registered before Run): whatever order the calls
	// take effect in, every handler's expected nesting is the same
	concurrentLate := nLate > 1 && failDec < 0 && failSubDec < 0 && t.Chance(1, 3)
	registerLate := func(i int) {
		h := hs[i]
		addHandler(h)
		for _, lr := range lateRegs {
			if lr[0] == i {
				tag := fmt.Sprintf("mw%d", lr[1])
				h.h.AddMiddleware(mkMW(tag))
				h.want = append(h.want, tag)
			}
		}
	}
	if concurrentLate {
		r.Fault("concurrent-registration")
		regDone := make(chan struct{}, nLate)
		for i := nH; i < nH+nLate; i++ {
			i := i
			go func() {
				registerLate(i)
				regDone <- struct{}{}
			}()
		}
		for i := 0; i < nLate; i++ {
			<-regDone
		}
	}
	// late handlers: each one fully registered, then RunHandlers (sometimes twice concurrently), while earlier ones are still starting
	for i := nH; i < nH+nLate; i++ {
		if !concurrentLate {
			registerLate(i)
		}
		if i == nH && stopEarly >= 0 {
			r.Fault("handler-stop-during-startup-of-another")
			go hs[stopEarly].h.Stop()
		}
		if i == nH && (failDec >= 0 || failSubDec >= 0) {
			// (whether RunHandlers reports the constructor's error, and whether a later call tries again, is not the
			// property's business: it speaks about the handlers that do run)
			if err := rig.Router.RunHandlers(rig.ctx); err == nil {
				r.Probe("runhandlers-did-not-report-constructor-error")
			}
		}
		var second chan struct{}
		if t.Chance(1, 2) {
			second = make(chan struct{})
			go func() {
				defer close(second)
				if err := rig.Router.RunHandlers(rig.ctx); err != nil {
					r.Probe("runhandlers-error")
				}
			}()
		}
		if err := rig.Router.RunHandlers(rig.ctx); err != nil {
			r.Probe("runhandlers-error")
		}
		if second != nil {
			// the next handler must be completely registered before any RunHandlers call can see it
			<-second
		}
	}
	r.Sim.Quiesce()
	// in a third of the random runs a handler is stopped and, once Stopped() is closed, a new handler is registered under
	// the same name with middlewares of its own: it runs the router-level ones plus its own new ones (whether those of
	// its predecessor of the same name still apply is not specified: they are tolerated, not demanded)
	others := nH + nLate - 1
	if stopEarly > 0 {
		others--
	}
	// (another handler keeps running meanwhile: a router whose last handler ends closes itself)
	if !exhaustive && stopEarly != 0 && others >= 1 && t.Chance(1, 3) {
		old := hs[0]
		r.Fault("handler-stopped-and-registered-again-under-its-name")
		old.h.Stop()
		<-old.h.Stopped()
		h2 := &c9Handler{name: old.name, traces: map[*message.Message][]string{}, reborn: true, outTopic: "out-" + old.name}
		h2.sub = NewScriptedSubscriber(r, old.name+"-sub2")
		h2.sub.Script["in-"+old.name] = []ScriptMsg{{UUID: old.name + "-again-m0", Payload: "x"}, {UUID: old.name + "-again-m1", Payload: "y"}}
		h2.pub = NewScriptedPublisher(r, old.name+"-pub2")
		hs = append(hs, h2)
		addHandler(h2)
		h2.want = append(h2.want, routerTags...)
		for k := 0; k < 2; k++ {
			tag := fmt.Sprintf("again%d", k)
			h2.h.AddMiddleware(mkMW(tag))
			h2.want = append(h2.want, tag)
		}
		for _, tg := range old.want {
			isRouter := false
			for _, rt := range routerTags {
				if rt == tg {
					isRouter = true
				}
			}
			if !isRouter {
				h2.tolerated = append(h2.tolerated, tg)
			}
		}
		rebornStopped = true
		if err := rig.Router.RunHandlers(rig.ctx); err != nil {
			r.Probe("runhandlers-error")
		}
		r.Sim.Quiesce()
	}
	rig.Router.Close()
}

func currentC9(hs []*c9Handler, m *message.Message) *c9Handler {
	for _, h := range hs {
		if h.sub.ByMsg[m] != nil {
			return h
		}
	}
	return nil
}

func init() {
	Register(&Scenario{
		Prop: "C09", Name: "registration-programs",
		Setup: func(r *Run) simrt.Config {
			c := BaseConfig()
			c.Horizon = 10 * time.Minute
			MaybeFine(r, &c, "watermill/message.", 1, 4)
			return c
		},
		Body: c09Body,
		Prefixes: func(tier string) [][]uint32 {
			var out [][]uint32
			p := 1
			for k := 0; k <= 6; k++ {
				for c := 0; c < p; c++ {
					out = append(out, []uint32{uint32(k), uint32(c), 1})
				}
				p *= 3
			}
			return out
		},
		Real:  []string{"message.Router (AddMiddleware, Handler.AddMiddleware, AddPublisherDecorators, AddSubscriberDecorators, RunHandlers)", "message.MessageTransform{Publisher,Subscriber}Decorator"},
		Stubs: []string{"ScriptedSubscriber", "ScriptedPublisher", "sync.* -> vsync"},
	})
}
