package scen

import (
	"context"
	"fmt"
	"sort"
	"strings"
	"time"

	"github.com/ThreeDotsLabs/watermill/message"
	"github.com/ThreeDotsLabs/watermill/pubsub/gochannel"
	"github.com/ThreeDotsLabs/watermill/verifsim/simrt"
)

// Shared GoChannel workload for C04 (delivery), C05 (one unsettled message,
// blocking publish) and C11 (persistent replay). One world = one GoChannel,
// a few topics, publishers and subscriptions with scripted consumer behaviour.

type gcMarkerKey struct{}

type gcOpts struct {
	prop          string
	persistent    int // 0 random, 1 always, 2 never
	blocking      int
	nacks         bool
	cancels       bool
	holdProbe     bool // consumer holds the message and probes the channel (C05.R1)
	neverSettle   bool
	nestedPublish bool
	subChurn      bool // extra Subscribe/cancel traffic while publishing
	lateSubs      bool
	fine          bool
}

type gcMsgPlan struct {
	nacks  int
	sleep  time.Duration
	mutate bool
	hold   int
	nested bool
}

type gcPubRec struct {
	pub, idx       int
	uuid, topic    string
	orig           *message.Message
	snap           *message.Message
	invEv, retEv   int64
	err            error
	returned       bool
	panicked       any
	nestedBy       int // sub id for nested publishes, -1 otherwise
}

type gcDelivery struct {
	sub                *gcSub
	uuid               string
	msg                *message.Message
	recvEv, settleEv   int64
	acked, nacked      bool
	ctxLiveAtRecv      bool
	ctxMarker          any
	metaAtRecv         map[string]string
	payloadAtRecv      string
	subCancelledAtRecv bool
}

type gcSub struct {
	id           int
	topic        string
	timing       int // 0 early, 1 concurrent, 2 late
	ctx          context.Context
	cancel       context.CancelFunc
	ch           <-chan *message.Message
	invEv, retEv int64
	err          error
	cancelled    bool
	cancelEv     int64
	cancelAfter  int // cancel own subscription after that many deliveries (-1: never)
	neverSettle  bool
	stuck        bool
	plan         map[string]*gcMsgPlan
	deliveries   []*gcDelivery
	closedSeen   bool
	churn        bool
}

type gcPublisher struct {
	id      int
	topic   string
	phase   int
	msgs    []*message.Message
	batches []int // sizes of the consecutive Publish calls (variadic batches)
	reuse   bool  // single-message Publish calls all use one message object, refilled after each call returned
	// ctxEnds >= 0: the published messages carry a context of the publisher's that ends that many scheduling steps after
	// Publish was invoked (a request context, say): what Publish promises does not depend on it
	ctxEnds int
}

type gcWorld struct {
	dupUUIDs bool // some UUID is published more than once (C11 worlds only)
	r      *Run
	o      gcOpts
	cfg    gochannel.Config
	ps     *gochannel.GoChannel
	topics []string
	pubs   []*gcPublisher
	subs   []*gcSub
	recs   []*gcPubRec
	ev     int64
	nested int
}

func (w *gcWorld) tick() int64 { w.ev++; return w.ev }

func gcSetup(o gcOpts) func(r *Run) simrt.Config {
	return func(r *Run) simrt.Config {
		c := BaseConfig()
		c.Horizon = 10 * time.Minute
		if o.fine && r.T.Chance(1, 4) {
			c.Fine = true
			c.FinePkg = "pubsub/gochannel."
		}
		if r.T.Chance(1, 4) {
			c.ClockJumps, c.JumpMax, c.JumpWithin = 2, 10*time.Millisecond, 500
		}
		return c
	}
}

func gcGenerate(r *Run, o gcOpts) *gcWorld {
	w := &gcWorld{r: r, o: o}
	t := r.T
	w.cfg.OutputChannelBuffer = int64(simrt.Pick(t, 0, 1, 3))
	switch o.persistent {
	case 0:
		w.cfg.Persistent = t.Chance(1, 3)
	case 1:
		w.cfg.Persistent = true
	}
	switch o.blocking {
	case 0:
		w.cfg.BlockPublishUntilSubscriberAck = t.Chance(1, 3)
	case 1:
		w.cfg.BlockPublishUntilSubscriberAck = true
	}
	nTopics := 1 + t.Skewed(3)
	for i := 0; i < nTopics; i++ {
		w.topics = append(w.topics, fmt.Sprintf("t%d", i))
	}
	nPubs := 1 + t.Skewed(4)
	for p := 0; p < nPubs; p++ {
		pb := &gcPublisher{id: p, topic: w.topics[t.Int(nTopics)]}
		if o.lateSubs && t.Chance(1, 4) {
			pb.phase = 1
		}
		n := 1 + t.Skewed(5)
		for i := 0; i < n; i++ {
			m := message.NewMessage(fmt.Sprintf("%s/p%d-m%d", pb.topic, p, i), []byte(fmt.Sprintf("payload-%d-%d", p, i)))
			m.Metadata.Set("k", fmt.Sprintf("v%d", i))
			if t.Chance(1, 2) {
				m.Metadata.Set("extra", fmt.Sprintf("e%d", t.Int(100)))
			}
			if t.Chance(1, 3) {
				m.Metadata["flag"] = "" // a key whose value is the empty string is still a key (written directly: Set is code under test)
			}
			pb.msgs = append(pb.msgs, m)
		}
		for left := n; left > 0; {
			b := 1 + t.Skewed(3)
			if b > left {
				b = left
			}
			pb.batches = append(pb.batches, b)
			left -= b
		}
		if o.prop == "C11" && t.Chance(1, 3) {
			// the same message (same UUID: "only used for debugging", may even be empty) is published once more
			orig := pb.msgs[t.Int(len(pb.msgs))]
			again := message.NewMessage(orig.UUID, orig.Payload)
			for k, v := range orig.Metadata {
				again.Metadata.Set(k, v)
			}
			pb.msgs = append(pb.msgs, again)
			pb.batches = append(pb.batches, 1)
			w.dupUUIDs = true
		}
		pb.reuse = t.Chance(1, 3)
		pb.ctxEnds = -1
		if t.Chance(1, 4) {
			pb.ctxEnds = t.Int(12)
		}
		w.pubs = append(w.pubs, pb)
	}
	nSubs := t.Skewed(5)
	if o.prop != "C04" && nSubs == 0 {
		nSubs = 1
	}
	for s := 0; s < nSubs; s++ {
		sb := &gcSub{id: s, topic: w.topics[t.Int(nTopics)], cancelAfter: -1, plan: map[string]*gcMsgPlan{}}
		sb.timing = t.Int(2)
		if o.lateSubs && t.Chance(1, 4) {
			sb.timing = 2
		}
		if o.cancels && t.Chance(1, 5) {
			sb.cancelAfter = t.Int(6)
		}
		if o.neverSettle && t.Chance(1, 6) {
			sb.neverSettle = true
		}
		for _, pb := range w.pubs {
			if pb.topic != sb.topic {
				continue
			}
			for _, m := range pb.msgs {
				pl := &gcMsgPlan{}
				if o.nacks && t.Chance(1, 3) {
					pl.nacks = 1 + t.Skewed(3)
				}
				if t.Chance(1, 4) {
					pl.sleep = time.Duration(1+t.Int(5)) * time.Millisecond
				}
				if t.Chance(1, 4) {
					pl.mutate = true
				}
				if o.holdProbe {
					pl.hold = t.Skewed(4)
				}
				if o.nestedPublish && len(w.topics) > 1 && t.Chance(1, 3) {
					pl.nested = true
				}
				sb.plan[m.UUID] = pl
			}
		}
		w.subs = append(w.subs, sb)
	}
	if o.subChurn {
		n := t.Skewed(4)
		for i := 0; i < n; i++ {
			sb := &gcSub{id: len(w.subs), topic: w.topics[t.Int(nTopics)], cancelAfter: t.Int(3), plan: map[string]*gcMsgPlan{}, timing: 1, churn: true}
			w.subs = append(w.subs, sb)
		}
	}
	r.Describe("GoChannel{buffer:%d persistent:%v blocking:%v} topics=%d", w.cfg.OutputChannelBuffer, w.cfg.Persistent, w.cfg.BlockPublishUntilSubscriberAck, nTopics)
	for _, pb := range w.pubs {
		r.Describe("publisher %d -> %s: %d messages in Publish calls of sizes %v (phase %d), reuses one message object=%v", pb.id, pb.topic, len(pb.msgs), pb.batches, pb.phase, pb.reuse)
	}
	for _, sb := range w.subs {
		var pl []string
		keys := make([]string, 0, len(sb.plan))
		for k := range sb.plan {
			keys = append(keys, k)
		}
		sort.Strings(keys)
		for _, k := range keys {
			p := sb.plan[k]
			pl = append(pl, fmt.Sprintf("%s:nack%d,sleep%v,mut%v,hold%d,nested%v", k, p.nacks, p.sleep, p.mutate, p.hold, p.nested))
		}
		r.Describe("subscription %d on %s timing=%d cancelAfter=%d neverSettle=%v churn=%v plan=[%s]", sb.id, sb.topic, sb.timing, sb.cancelAfter, sb.neverSettle, sb.churn, strings.Join(pl, " "))
	}
	return w
}

func (w *gcWorld) subscribe(s *gcSub) bool {
	ctx, cancel := context.WithCancel(context.WithValue(context.Background(), gcMarkerKey{}, s.id))
	s.ctx, s.cancel = ctx, cancel
	s.invEv = w.tick()
	ch, err := w.ps.Subscribe(ctx, s.topic)
	s.retEv = w.tick()
	s.ch, s.err = ch, err
	w.r.Logf("sub %d subscribed to %s err=%v", s.id, s.topic, err)
	return err == nil
}

func (w *gcWorld) publishAll(pb *gcPublisher) {
	i := 0
	var carrier *message.Message
	for _, size := range pb.batches {
		batch := pb.msgs[i : i+size]
		if pb.reuse && size == 1 {
			// the publisher owns its message object again once Publish has returned, and fills it anew
			if carrier == nil {
				carrier = message.NewMessage("", nil)
			}
			carrier.UUID, carrier.Payload, carrier.Metadata = batch[0].UUID, batch[0].Payload, message.Metadata(copyMeta(batch[0].Metadata))
			batch = []*message.Message{carrier}
		}
		var recs []*gcPubRec
		var ids []string
		for k, m := range batch {
			rec := &gcPubRec{pub: pb.id, idx: i + k, uuid: m.UUID, topic: pb.topic, orig: m, snap: SnapMsg(m), nestedBy: -1}
			w.recs = append(w.recs, rec)
			recs = append(recs, rec)
			ids = append(ids, m.UUID)
		}
		i += size
		inv := w.tick()
		for _, rec := range recs {
			rec.invEv = inv
		}
		w.r.Logf("pub %d Publish(%v) invoked", pb.id, ids)
		if pb.ctxEnds >= 0 {
			cctx, ccancel := context.WithCancel(context.Background())
			for _, m := range batch {
				m.SetContext(cctx)
			}
			n := pb.ctxEnds
			go func() {
				for k := 0; k < n; k++ {
					simrt.Yield()
				}
				w.r.Fault("published-message-context-ends")
				ccancel()
			}()
		}
		var err error
		pv, pan := Call(func() { err = w.ps.Publish(pb.topic, batch...) })
		ret := w.tick()
		for _, rec := range recs {
			rec.retEv, rec.returned, rec.err = ret, true, err
		}
		if pan {
			recs[0].panicked = pv
			w.r.Fail(w.o.prop+".PANIC", "Publish panicked", "Publish(%v) panicked: %v", ids, pv)
		}
		w.r.Logf("pub %d Publish(%v) returned err=%v", pb.id, ids, err)
		// Publish has returned: the caller owns its originals again and reuses them (never while Publish runs).
		// message.Message's documentation advises against that "in general", yet GoChannel copies what it is given
		// precisely so that it cannot matter: what subscribers get, now or by a later replay, is what was published.
		for _, m := range batch {
			m.Metadata.Set("post-publish-edit", "x")
		}
	}
}

func copyMeta(m message.Metadata) map[string]string {
	o := map[string]string{}
	for k, v := range m {
		o[k] = v
	}
	return o
}

func (w *gcWorld) consume(s *gcSub) {
	r := w.r
	count := 0
	for {
		m, ok := <-s.ch
		if !ok {
			s.closedSeen = true
			r.Logf("sub %d channel closed", s.id)
			return
		}
		d := &gcDelivery{sub: s, uuid: m.UUID, msg: m, recvEv: w.tick(), metaAtRecv: copyMeta(m.Metadata), payloadAtRecv: string(m.Payload), subCancelledAtRecv: s.cancelled}
		d.ctxLiveAtRecv = m.Context().Err() == nil
		d.ctxMarker = m.Context().Value(gcMarkerKey{})
		// C05.R1: the previous delivery on this subscription must be settled
		if n := len(s.deliveries); n > 0 {
			p := s.deliveries[n-1]
			if !p.acked && !p.nacked {
				r.Fail("C05.R1", "a message was received while the previous one on the same subscription was unsettled",
					"sub %d received %s while %s is unsettled (cancelled=%v)", s.id, m.UUID, p.uuid, s.cancelled)
			}
		}
		s.deliveries = append(s.deliveries, d)
		count++
		r.Logf("sub %d received %s (delivery %d)", s.id, m.UUID, count)
		pl := s.plan[m.UUID]
		if pl == nil {
			pl = &gcMsgPlan{}
		}
		if s.neverSettle {
			s.stuck = true
			r.Fault("consumer-never-settles")
			// keep the message unsettled for ever; the channel must stay silent meanwhile
			for i := 0; i < 3; i++ {
				time.Sleep(time.Second)
				w.probeSilent(s, d)
			}
			return
		}
		if w.o.holdProbe {
			w.probeSilent(s, d)
			for i := 0; i < pl.hold; i++ {
				if i%2 == 0 {
					simrt.Yield()
				} else {
					time.Sleep(time.Millisecond)
				}
				w.probeSilent(s, d)
			}
		}
		if pl.mutate {
			m.Metadata.Set(fmt.Sprintf("mut-by-sub%d", s.id), "x")
		}
		if pl.sleep > 0 {
			r.Fault("consumer-slow")
			time.Sleep(pl.sleep)
		}
		if pl.nested && d == firstDeliveryOf(s, m.UUID) {
			w.nestedPublish(s, m)
		}
		nackedBefore := 0
		for _, q := range s.deliveries {
			if q.uuid == m.UUID && q.nacked {
				nackedBefore++
			}
		}
		d.settleEv = w.tick()
		if nackedBefore < pl.nacks {
			r.Fault("consumer-nack")
			d.nacked = true
			if !m.Nack() {
				// (somebody else settled the copy first, e.g. the Pub/Sub while tearing the subscription down)
				r.Probe("nack-on-fresh-delivery-returned-false")
			}
			r.Logf("sub %d nacked %s", s.id, m.UUID)
		} else {
			d.acked = true
			if !m.Ack() {
				r.Probe("ack-on-fresh-delivery-returned-false")
			}
			r.Logf("sub %d acked %s", s.id, m.UUID)
		}
		if s.cancelAfter >= 0 && count > s.cancelAfter && !s.cancelled {
			w.cancelSub(s)
		}
	}
}

func firstDeliveryOf(s *gcSub, uuid string) *gcDelivery {
	for _, d := range s.deliveries {
		if d.uuid == uuid {
			return d
		}
	}
	return nil
}

func (w *gcWorld) cancelSub(s *gcSub) {
	s.cancelled = true
	s.cancelEv = w.tick()
	w.r.Fault("subscription-cancel")
	w.r.Logf("sub %d cancels its subscription", s.id)
	s.cancel()
}

// probeSilent: while d is unsettled nothing may be receivable on the subscription.
func (w *gcWorld) probeSilent(s *gcSub, d *gcDelivery) {
	if l := len(s.ch); l != 0 {
		w.r.Fail("C05.R1", "output channel holds a message while the previous delivery is unsettled",
			"sub %d: len(ch)=%d while %s is unsettled (buffer %d, cancelled=%v)", s.id, l, d.uuid, w.cfg.OutputChannelBuffer, s.cancelled)
	}
	m, ok, got := simrt.TryRecvRaw(s.ch)
	if got && ok {
		w.r.Fail("C05.R1", "a second message is receivable while the previous delivery is unsettled",
			"sub %d could receive %s while %s is unsettled (cancelled=%v)", s.id, m.UUID, d.uuid, s.cancelled)
	}
	w.r.Probe("silent-channel-probes")
}

// nestedPublish: a consumer publishes to another topic of the same Pub/Sub before acking.
func (w *gcWorld) nestedPublish(s *gcSub, m *message.Message) {
	// acyclic: only towards the next topic (cyclic nested publishing deadlocks by the very meaning of "block until ack")
	var other string
	for i, t := range w.topics {
		if t == s.topic && i+1 < len(w.topics) {
			other = w.topics[i+1]
		}
	}
	if other == "" {
		return
	}
	w.nested++
	nm := message.NewMessage(fmt.Sprintf("%s/nested%d-by-sub%d", other, w.nested, s.id), []byte("nested"))
	rec := &gcPubRec{pub: -1, idx: w.nested, uuid: nm.UUID, topic: other, orig: nm, snap: SnapMsg(nm), nestedBy: s.id}
	w.recs = append(w.recs, rec)
	w.r.Fault("consumer-publishes-before-ack")
	rec.invEv = w.tick()
	w.r.Logf("sub %d publishes %s from its receive loop", s.id, nm.UUID)
	rec.err = w.ps.Publish(other, nm)
	rec.retEv = w.tick()
	rec.returned = true
	w.r.Logf("sub %d nested publish %s returned err=%v", s.id, nm.UUID, rec.err)
}

func (w *gcWorld) run() {
	r := w.r
	w.ps = gochannel.NewGoChannel(w.cfg, nil)
	for _, s := range w.subs {
		if s.timing == 0 {
			if w.subscribe(s) {
				s := s
				go w.consume(s)
			}
		}
	}
	for _, s := range w.subs {
		if s.timing == 1 {
			s := s
			go func() {
				if w.subscribe(s) {
					if s.churn {
						go func() {
							time.Sleep(time.Duration(1+s.id%5) * time.Millisecond)
							if !s.cancelled {
								w.cancelSub(s)
							}
						}()
					}
					w.consume(s)
				}
			}()
		}
	}
	for _, pb := range w.pubs {
		if pb.phase == 0 {
			pb := pb
			go w.publishAll(pb)
		}
	}
	r.Sim.Quiesce()
	r.Logf("--- phase 2")
	for _, s := range w.subs {
		if s.timing == 2 {
			s := s
			go func() {
				if w.subscribe(s) {
					w.consume(s)
				}
			}()
		}
	}
	for _, pb := range w.pubs {
		if pb.phase == 1 {
			pb := pb
			go w.publishAll(pb)
		}
	}
}

// ---- oracles -------------------------------------------------------------------

func (w *gcWorld) topicOfUUID(uuid string) string {
	if i := strings.Index(uuid, "/"); i >= 0 {
		return uuid[:i]
	}
	return ""
}

func (w *gcWorld) checkDelivery() {
	r := w.r
	// R2/R4/R5 per delivery
	seenPtr := map[*message.Message]bool{}
	for _, rec := range w.recs {
		seenPtr[rec.orig] = true
	}
	recByUUID := map[string]*gcPubRec{}
	for _, rec := range w.recs {
		recByUUID[rec.uuid] = rec
	}
	for _, s := range w.subs {
		for _, d := range s.deliveries {
			if w.topicOfUUID(d.uuid) != s.topic {
				r.Fail("C04.R2", "message delivered to a subscription of another topic", "sub %d (%s) received %s", s.id, s.topic, d.uuid)
			}
			rec := recByUUID[d.uuid]
			if rec == nil {
				r.Fail("C04.R2", "delivered message was never published", "sub %d received unknown %s", s.id, d.uuid)
				continue
			}
			if seenPtr[d.msg] {
				r.Fail("C04.R4", "a delivered message object is shared with another delivery or with the publisher's original", "sub %d %s", s.id, d.uuid)
			}
			seenPtr[d.msg] = true
			if d.payloadAtRecv != string(rec.snap.Payload) {
				r.Fail("C04.R1", "delivered payload differs from the published one", "sub %d %s: %q vs %q", s.id, d.uuid, d.payloadAtRecv, rec.snap.Payload)
			}
			if !sameMeta(d.metaAtRecv, rec.snap.Metadata) {
				sig := "delivered metadata differs from the published one"
				for k := range d.metaAtRecv {
					if strings.HasPrefix(k, "mut-by-sub") || k == "post-publish-edit" {
						sig = "a metadata edit made on another copy (consumer's delivery or publisher's original after Publish) is visible in a delivery"
					}
				}
				r.Fail("C04.R4", sig, "sub %d %s: got %v, published %v", s.id, d.uuid, d.metaAtRecv, rec.snap.Metadata)
			}
			if d.ctxMarker != s.id {
				r.Fail("C04.R5", "delivery context does not derive from the Subscribe context", "sub %d %s marker=%v", s.id, d.uuid, d.ctxMarker)
			}
			if !d.ctxLiveAtRecv && !d.subCancelledAtRecv {
				r.Fail("C04.R5", "delivery context already cancelled on receipt", "sub %d %s", s.id, d.uuid)
			}
			if d.acked && d.msg.Context().Err() == nil {
				r.Fail("C04.R5", "delivery context still live at quiescence after the Ack", "sub %d %s", s.id, d.uuid)
			}
		}
		// R3: redelivery discipline per message
		byUUID := map[string][]*gcDelivery{}
		var order []string
		for _, d := range s.deliveries {
			if _, ok := byUUID[d.uuid]; !ok {
				order = append(order, d.uuid)
			}
			byUUID[d.uuid] = append(byUUID[d.uuid], d)
		}
		for _, u := range order {
			ds := byUUID[u]
			for i, d := range ds {
				if i > 0 {
					p := ds[i-1]
					if !p.nacked {
						r.Fail("C04.R3", "a message was delivered again to a subscription that had not Nacked the previous delivery", "sub %d %s delivery %d follows a delivery that was acked=%v", s.id, u, i, p.acked)
					} else if d.recvEv < p.settleEv {
						r.Fail("C04.R3", "redelivery received before the Nack of the previous delivery", "sub %d %s", s.id, u)
					}
				}
			}
			last := ds[len(ds)-1]
			if last.nacked && !s.cancelled && !s.closedSeen {
				r.Fail("C04.R3", "a Nacked message was not redelivered", "sub %d %s nacked at ev %d, no further delivery at quiescence", s.id, u, last.settleEv)
			}
		}
	}
	// R1 completeness
	for _, rec := range w.recs {
		if !rec.returned || rec.err != nil {
			continue
		}
		for _, s := range w.subs {
			if s.topic != rec.topic || s.err != nil || s.retEv == 0 || s.retEv > rec.invEv || s.cancelled || s.neverSettle || s.stuckBefore(rec) {
				continue
			}
			ok := false
			for _, d := range s.deliveries {
				if d.uuid == rec.uuid && d.acked {
					ok = true
				}
			}
			if !ok {
				r.Fail("C04.R1", "a successfully published message never reached (was never acked by) a subscription that existed when Publish was called",
					"%s published at ev %d..%d; sub %d subscribed at ev %d, deliveries=%d", rec.uuid, rec.invEv, rec.retEv, s.id, s.retEv, len(s.deliveries))
			}
		}
		// publisher's original must not see consumer edits
		for k := range rec.orig.Metadata {
			if strings.HasPrefix(k, "mut-by-sub") {
				r.Fail("C04.R4", "a consumer's metadata edit is visible in the publisher's original", "%s has %s", rec.uuid, k)
			}
		}
	}
}

func (s *gcSub) stuckBefore(rec *gcPubRec) bool { return s.stuck }

func sameMeta(a map[string]string, b message.Metadata) bool {
	if len(a) != len(b) {
		return false
	}
	for k, v := range a {
		if bv, ok := b[k]; !ok || bv != v {
			return false
		}
	}
	return true
}

func (w *gcWorld) checkBlocking() {
	r := w.r
	anyStuck := false
	for _, s := range w.subs {
		if s.stuck || s.neverSettle {
			anyStuck = true
		}
	}
	nestedPending, churnPending := false, false
	for _, rec := range w.recs {
		if rec.nestedBy >= 0 && !rec.returned {
			nestedPending = true
		}
	}
	for _, s := range w.subs {
		if (s.cancelled && !s.closedSeen) || (s.invEv > 0 && s.retEv == 0) {
			churnPending = true
		}
	}
	for _, g := range LibGoroutinesAlive(r.Sim, "gochannel.(*GoChannel).Subscribe") {
		if g.State == "parked" { // waiting for a lock, not for a channel
			churnPending = true
		}
	}
	for _, rec := range w.recs {
		if !rec.returned {
			if !anyStuck {
				sig := "a Publish call is still blocked at quiescence although every subscriber settles every message"
				if nestedPending && churnPending {
					sig = "blocking Publish never returns: a consumer is blocked in a Publish issued from its receive loop while a Subscribe or subscription tear-down is pending"
				}
				r.Fail("C05.R4", sig,
					"Publish(%s) invoked at ev %d never returned (blocking=%v)", rec.uuid, rec.invEv, w.cfg.BlockPublishUntilSubscriberAck)
			} else {
				r.Probe("publish-blocked-by-never-settling-consumer")
			}
			continue
		}
		if !w.cfg.BlockPublishUntilSubscriberAck || rec.err != nil {
			continue
		}
		for _, s := range w.subs {
			if s.topic != rec.topic || s.err != nil || s.retEv == 0 || s.retEv > rec.invEv {
				continue
			}
			if s.cancelled && s.cancelEv < rec.retEv {
				continue
			}
			ok := false
			for _, d := range s.deliveries {
				if d.uuid == rec.uuid && d.acked && d.settleEv < rec.retEv {
					ok = true
				}
			}
			if !ok {
				r.Fail("C05.R2", "blocking Publish returned before a subscription that was active for the message had acked it",
					"Publish(%s) returned at ev %d; sub %d (subscribed ev %d, cancelled=%v) has no ack before that", rec.uuid, rec.retEv, s.id, s.retEv, s.cancelled)
			}
		}
	}
	if !w.cfg.BlockPublishUntilSubscriberAck {
		return
	}
	// R3: per publisher and pre-existing subscription, deliveries follow publish order
	for _, pb := range w.pubs {
		first := int64(1 << 62)
		for _, rec := range w.recs {
			if rec.pub == pb.id && rec.invEv < first {
				first = rec.invEv
			}
		}
		for _, s := range w.subs {
			if s.topic != pb.topic || s.err != nil || s.retEv == 0 || s.retEv > first || s.cancelled {
				continue
			}
			last := -1
			for _, d := range s.deliveries {
				for _, rec := range w.recs {
					if rec.pub == pb.id && rec.uuid == d.uuid {
						if rec.idx < last {
							r.Fail("C05.R3", "in blocking mode a subscription received one publisher's messages out of publish order",
								"sub %d got %s after message index %d of publisher %d", s.id, d.uuid, last, pb.id)
						}
						last = rec.idx
					}
				}
			}
		}
	}
}

func (w *gcWorld) checkPersistent() {
	r := w.r
	for _, s := range w.subs {
		if s.err != nil || s.retEv == 0 || s.cancelled || s.neverSettle {
			continue
		}
		// deliveries that were acked (a delivery the subscriber nacked comes again, which is not a second message)
		got := map[string]int{}
		for _, d := range s.deliveries {
			if d.acked {
				got[d.uuid]++
			}
		}
		// how often each UUID was successfully published (a UUID may be published more than once)
		pubs := map[string]int{}
		for _, rec := range w.recs {
			if rec.topic == s.topic && rec.returned && rec.err == nil {
				pubs[rec.uuid]++
			}
		}
		for _, rec := range w.recs {
			if rec.topic != s.topic || !rec.returned || rec.err != nil {
				continue
			}
			switch n := got[rec.uuid]; {
			case n < pubs[rec.uuid] && n > 0:
				r.Fail("C11.R1", "a persistent subscription missed a successfully published message",
					"sub %d (subscribed ev %d..%d) received %s %d times, it was published %d times", s.id, s.invEv, s.retEv, rec.uuid, n, pubs[rec.uuid])
			case n > pubs[rec.uuid]:
				r.Fail("C11.R2", "a persistent subscription received (and acked) a message more than once",
					"sub %d (subscribed ev %d..%d) received %s %d times (published %d times, ev %d..%d)", s.id, s.invEv, s.retEv, rec.uuid, n, pubs[rec.uuid], rec.invEv, rec.retEv)
			case n == pubs[rec.uuid]:
			case n == 0:
				r.Fail("C11.R1", "a persistent subscription missed a successfully published message",
					"sub %d (subscribed ev %d..%d) never received %s (published ev %d..%d)", s.id, s.invEv, s.retEv, rec.uuid, rec.invEv, rec.retEv)
			case n > 1:
				r.Fail("C11.R2", "a persistent subscription received (and acked) a message more than once",
					"sub %d (subscribed ev %d..%d) received %s %d times (published ev %d..%d)", s.id, s.invEv, s.retEv, rec.uuid, n, rec.invEv, rec.retEv)
			}
		}
	}
}

func gcBody(o gcOpts) func(r *Run) {
	return func(r *Run) {
		w := gcGenerate(r, o)
		r.Sim.AtEnd(func() {
			switch o.prop {
			case "C04":
				w.checkDelivery()
			case "C05":
				w.checkBlocking()
			case "C11":
				w.checkPersistent()
			}
			overlap := 0
			for _, s := range w.subs {
				for _, rec := range w.recs {
					if s.topic == rec.topic && s.invEv < rec.retEv && rec.invEv < s.retEv {
						overlap++
					}
				}
			}
			if overlap > 0 {
				r.Probe("subscribe-overlaps-publish")
			}
		})
		w.run()
	}
}

var gcReal = []string{"pubsub/gochannel.GoChannel (Publish, Subscribe, send loop, tear-down)", "message.Message"}
var gcStubs = []string{"sync.* -> vsync", "harness publishers/consumers"}

func init() {
	c04 := gcOpts{prop: "C04", nacks: true, cancels: true, lateSubs: true, fine: true}
	Register(&Scenario{Prop: "C04", Name: "gochannel-delivery", Setup: gcSetup(c04), Body: gcBody(c04), Real: gcReal, Stubs: gcStubs})

	c05 := gcOpts{prop: "C05", nacks: true, cancels: true, holdProbe: true, lateSubs: true, fine: true}
	Register(&Scenario{Prop: "C05", Name: "one-unsettled", Setup: gcSetup(c05), Body: gcBody(c05), Real: gcReal, Stubs: gcStubs, Weight: 3})
	c05b := gcOpts{prop: "C05", blocking: 1, nacks: true, cancels: true, holdProbe: true, subChurn: true, fine: true}
	Register(&Scenario{Prop: "C05", Name: "blocking-publish", Setup: gcSetup(c05b), Body: gcBody(c05b), Real: gcReal, Stubs: gcStubs, Weight: 3})
	c05c := gcOpts{prop: "C05", blocking: 1, nacks: true, nestedPublish: true, subChurn: true, cancels: true}
	Register(&Scenario{Prop: "C05", Name: "blocking-nested-publish", Setup: gcSetup(c05c), Body: gcBody(c05c), Real: gcReal, Stubs: gcStubs, Weight: 2})
	c05d := gcOpts{prop: "C05", nacks: true, neverSettle: true, holdProbe: true}
	Register(&Scenario{Prop: "C05", Name: "never-settling-consumer", Setup: gcSetup(c05d), Body: gcBody(c05d), Real: gcReal, Stubs: gcStubs, Weight: 1})

	c11 := gcOpts{prop: "C11", persistent: 1, lateSubs: true, fine: true}
	Register(&Scenario{Prop: "C11", Name: "persistent-replay", Setup: gcSetup(c11), Body: gcBody(c11), Real: gcReal, Stubs: gcStubs, Weight: 1000})
	// sibling subscriptions that come and go (cancelled ones are exempt) must not disturb the exactly-once replay of the others
	// subscribers that nack (a few times) before they ack: every message is still acked exactly once by every subscription
	c11c := gcOpts{prop: "C11", persistent: 1, lateSubs: true, fine: true, nacks: true}
	Register(&Scenario{Prop: "C11", Name: "persistent-replay-with-nacks", Setup: gcSetup(c11c), Body: gcBody(c11c), Real: gcReal, Stubs: gcStubs, Weight: 500})
	c11b := gcOpts{prop: "C11", persistent: 1, lateSubs: true, fine: true, cancels: true, subChurn: true}
	Register(&Scenario{Prop: "C11", Name: "persistent-replay-with-churn", Setup: gcSetup(c11b), Body: gcBody(c11b), Real: gcReal, Stubs: gcStubs, Weight: 500})
	// (weights: a long-history run (c11big.go) costs about as much as a thousand of these; it gets about a seventh of the time)
}
