package scen

import (
	"context"
	"errors"
	"fmt"
	"reflect"
	"strings"
	"time"

	"google.golang.org/protobuf/proto"
	"google.golang.org/protobuf/types/known/durationpb"
	"google.golang.org/protobuf/types/known/wrapperspb"

	"github.com/ThreeDotsLabs/watermill/components/cqrs"
	"github.com/ThreeDotsLabs/watermill/message"
	"github.com/ThreeDotsLabs/watermill/verifsim/simrt"
)

// C15 — CQRS buses and processors dispatch by type name with the configured ack policy.

// (fields that are absent from some payloads and a map: a decoder handed a recycled object shows what it was not told
// to overwrite)
type jA struct {
	ID    string
	N     int
	Attrs map[string]string `json:"attrs,omitempty"`
	Note  *string           `json:"note,omitempty"`
}
type jB struct{ Text string }

func (jB) Name() string { return "custom-b" }

type jC struct {
	Flag bool
	Tags []string `json:"tags,omitempty"`
}
type jD struct{ X float64 }

const c15Types = 4

func c15Value(proto bool, typ, variant int) any {
	if proto {
		switch typ {
		case 0:
			return wrapperspb.String(fmt.Sprintf("str-%d", variant))
		case 1:
			return wrapperspb.Int64(int64(variant) * 1000003)
		case 2:
			return wrapperspb.Bool(variant%2 == 0)
		default:
			return durationpb.New(time.Duration(variant) * time.Millisecond)
		}
	}
	switch typ {
	case 0:
		v := &jA{ID: fmt.Sprintf("id-%d", variant), N: variant}
		if variant%4 != 0 {
			v.Attrs = map[string]string{fmt.Sprintf("k%d", variant%3): fmt.Sprint(variant)}
		}
		if variant%2 == 1 {
			note := fmt.Sprintf("note-%d", variant)
			v.Note = &note
		}
		return v
	case 1:
		return &jB{Text: fmt.Sprintf("text \"%d\" é", variant)}
	case 2:
		if variant%3 == 0 {
			return &jC{Flag: variant%2 == 0}
		}
		return &jC{Flag: variant%2 == 0, Tags: []string{"a", fmt.Sprint(variant)}}
	default:
		return &jD{X: float64(variant) / 3}
	}
}

func c15Equal(a, b any) bool {
	pa, ok1 := a.(proto.Message)
	pb, ok2 := b.(proto.Message)
	if ok1 && ok2 {
		return proto.Equal(pa, pb)
	}
	return reflect.DeepEqual(a, b)
}

// c15Mutate changes the value in place, as a handler may.
func c15Mutate(v any) {
	switch x := v.(type) {
	case *jA:
		x.ID += "-changed-by-a-handler"
		x.Attrs = map[string]string{"changed": "yes"}
	case *jB:
		x.Text += "-changed-by-a-handler"
	case *jC:
		x.Flag = !x.Flag
		x.Tags = append(x.Tags, "changed-by-a-handler")
	case *jD:
		x.X += 1000
	case *wrapperspb.StringValue:
		x.Value += "-changed-by-a-handler"
	case *wrapperspb.Int64Value:
		x.Value++
	case *wrapperspb.BoolValue:
		x.Value = !x.Value
	case *durationpb.Duration:
		x.Seconds += 1000
	}
}

type c15Rec func(handler string, typ int, ctx context.Context, v any) error

func c15Cmd[T any](name string, typ int, rec c15Rec) cqrs.CommandHandler {
	return cqrs.NewCommandHandler[T](name, func(ctx context.Context, v *T) error { return rec(name, typ, ctx, v) })
}
func c15Ev[T any](name string, typ int, rec c15Rec) cqrs.EventHandler {
	return cqrs.NewEventHandler[T](name, func(ctx context.Context, v *T) error { return rec(name, typ, ctx, v) })
}
func c15Grp[T any](name string, typ int, rec c15Rec) cqrs.GroupEventHandler {
	return cqrs.NewGroupEventHandler[T](func(ctx context.Context, v *T) error { return rec(name, typ, ctx, v) })
}

func c15CmdHandler(isProto bool, typ int, name string, rec c15Rec) cqrs.CommandHandler {
	if isProto {
		switch typ {
		case 0:
			return c15Cmd[wrapperspb.StringValue](name, typ, rec)
		case 1:
			return c15Cmd[wrapperspb.Int64Value](name, typ, rec)
		case 2:
			return c15Cmd[wrapperspb.BoolValue](name, typ, rec)
		default:
			return c15Cmd[durationpb.Duration](name, typ, rec)
		}
	}
	switch typ {
	case 0:
		return c15Cmd[jA](name, typ, rec)
	case 1:
		return c15Cmd[jB](name, typ, rec)
	case 2:
		return c15Cmd[jC](name, typ, rec)
	default:
		return c15Cmd[jD](name, typ, rec)
	}
}

func c15EvHandler(isProto bool, typ int, name string, rec c15Rec) cqrs.EventHandler {
	if isProto {
		switch typ {
		case 0:
			return c15Ev[wrapperspb.StringValue](name, typ, rec)
		case 1:
			return c15Ev[wrapperspb.Int64Value](name, typ, rec)
		case 2:
			return c15Ev[wrapperspb.BoolValue](name, typ, rec)
		default:
			return c15Ev[durationpb.Duration](name, typ, rec)
		}
	}
	switch typ {
	case 0:
		return c15Ev[jA](name, typ, rec)
	case 1:
		return c15Ev[jB](name, typ, rec)
	case 2:
		return c15Ev[jC](name, typ, rec)
	default:
		return c15Ev[jD](name, typ, rec)
	}
}

func c15GrpHandler(isProto bool, typ int, name string, rec c15Rec) cqrs.GroupEventHandler {
	if isProto {
		switch typ {
		case 0:
			return c15Grp[wrapperspb.StringValue](name, typ, rec)
		case 1:
			return c15Grp[wrapperspb.Int64Value](name, typ, rec)
		case 2:
			return c15Grp[wrapperspb.BoolValue](name, typ, rec)
		default:
			return c15Grp[durationpb.Duration](name, typ, rec)
		}
	}
	switch typ {
	case 0:
		return c15Grp[jA](name, typ, rec)
	case 1:
		return c15Grp[jB](name, typ, rec)
	case 2:
		return c15Grp[jC](name, typ, rec)
	default:
		return c15Grp[jD](name, typ, rec)
	}
}

type c15Sent struct {
	typ     int
	value   any
	name    string
	topic   string
	msg     *message.Message // captured
	kind    int              // 0 sent through the bus, 1 malformed payload, 2 foreign (no name)
}

type c15Handler struct {
	name    string
	typ     int
	group   string // group processors: group name
	sub     *ScriptedSubscriber
	topic   string
	failAt  map[int]bool // k-th invocation fails
	calls   int
}

type c15Call struct {
	h     *c15Handler
	d     *Delivery
	value any
	ctxOK bool
	err   error
	ev    int64
	// the comparison with the value that was sent, made inside the invocation
	valueChecked, valueEqual bool
}

var errC15 = errors.New("scripted cqrs handler error")

func c15Body(r *Run) {
	t := r.T
	procKind := t.Int(3) // 0 command, 1 event, 2 event group
	isProto := t.Chance(1, 3)
	nameGen := t.Int(3)
	sharedTopic := t.Chance(1, 2)
	ackUnknown := t.Chance(1, 2)
	ackCmdErrors := t.Chance(1, 2)
	var gen func(v interface{}) string
	switch nameGen {
	case 1:
		gen = cqrs.StructName
	case 2:
		gen = cqrs.NamedStruct(cqrs.FullyQualifiedStructName)
	}
	var marsh cqrs.CommandEventMarshaler
	if isProto {
		marsh = cqrs.ProtoMarshaler{GenerateName: gen}
	} else {
		marsh = cqrs.JSONMarshaler{GenerateName: gen}
	}
	topicFor := func(name string) string {
		if sharedTopic {
			return "all"
		}
		return "t." + name
	}
	// in some runs the bus derives the topic from the value as well (per-tenant topics): the processors are then fed
	// from the per-name topics all the same (phase 2 re-routes the captured messages)
	valueTopics := t.Chance(1, 3)
	busTopic := func(name string, v any) string {
		if !valueTopics {
			return topicFor(name)
		}
		tenant := 0
		if m, merr := marsh.Marshal(v); merr == nil {
			tenant = len(m.Payload) % 3
		}
		return fmt.Sprintf("%s/tenant-%d", topicFor(name), tenant)
	}
	r.Describe("processor kind %d (0 command, 1 event, 2 event group), proto=%v, name generator %d, shared topic=%v, AckOnUnknownEvent=%v, AckCommandHandlingErrors=%v, value-dependent bus topics=%v", procKind, isProto, nameGen, sharedTopic, ackUnknown, ackCmdErrors, valueTopics)

	// ---- phase 1: the bus
	capture := NewScriptedPublisher(r, "bus-capture")
	var sent []*c15Sent
	nSend := 1 + t.Skewed(8)
	var cbus *cqrs.CommandBus
	var ebus *cqrs.EventBus
	var err error
	// half of the runs configure the buses' and processors' hooks as pass-throughs (the documented
	// "params.Handler.Handle(params.Message.Context(), params.Command)"): everything must hold with them as without
	hooks := t.Chance(1, 2)
	if hooks {
		r.Probe("pass-through-hooks-configured")
	}
	if procKind == 0 {
		cfg := cqrs.CommandBusConfig{
			GeneratePublishTopic: func(p cqrs.CommandBusGeneratePublishTopicParams) (string, error) { return busTopic(p.CommandName, p.Command), nil },
			Marshaler:            marsh,
		}
		if hooks {
			cfg.OnSend = func(p cqrs.CommandBusOnSendParams) error { return nil }
		}
		cbus, err = cqrs.NewCommandBusWithConfig(capture, cfg)
	} else {
		cfg := cqrs.EventBusConfig{
			GeneratePublishTopic: func(p cqrs.GenerateEventPublishTopicParams) (string, error) { return busTopic(p.EventName, p.Event), nil },
			Marshaler:            marsh,
		}
		if hooks {
			cfg.OnPublish = func(p cqrs.OnEventSendParams) error { return nil }
		}
		ebus, err = cqrs.NewEventBusWithConfig(capture, cfg)
	}
	if err != nil {
		r.HarnessErr = "bus: " + err.Error()
		return
	}
	for i := 0; i < nSend; i++ {
		typ := t.Int(c15Types)
		v := c15Value(isProto, typ, t.Int(5))
		before := len(capture.Calls)
		var serr error
		if cbus != nil {
			serr = cbus.Send(context.Background(), v)
		} else {
			serr = ebus.Publish(context.Background(), v)
		}
		name := marsh.Name(v)
		if serr != nil {
			r.Fail("C15.R1", "the bus failed to send a valid value", "%T: %v", v, serr)
			continue
		}
		calls := capture.Calls[before:]
		if len(calls) != 1 || len(calls[0].Msgs) != 1 {
			r.Fail("C15.R1", "the bus did not publish exactly one message for one value", "%T: %d calls", v, len(calls))
			continue
		}
		c := calls[0]
		if c.Topic != busTopic(name, v) {
			r.Fail("C15.R1", "the bus published on a topic other than the generated one", "%T %v: %q, expected %q", v, v, c.Topic, busTopic(name, v))
		}
		m := c.Msgs[0]
		if marsh.NameFromMessage(m) != name {
			r.Fail("C15.R1", "the published message does not carry the value's type name", "%T: %q, expected %q", v, marsh.NameFromMessage(m), name)
		}
		back := c15Value(isProto, typ, 0)
		if uerr := marsh.Unmarshal(m, back); uerr != nil || !c15Equal(back, v) {
			r.Fail("C15.R1", "the published payload does not deserialise to the value sent", "%T: %v", v, uerr)
		}
		sent = append(sent, &c15Sent{typ: typ, value: v, name: name, topic: topicFor(name), msg: m})
	}
	// extra messages: malformed payloads with a known name, foreign messages without a name
	if t.Chance(1, 2) {
		typ := t.Int(c15Types)
		v := c15Value(isProto, typ, 0)
		name := marsh.Name(v)
		m := message.NewMessage("malformed", []byte("\xff\xfe not a payload {"))
		m.Metadata.Set("name", name)
		sent = append(sent, &c15Sent{typ: typ, name: name, topic: topicFor(name), msg: m, kind: 1})
	}
	if t.Chance(1, 2) {
		m := message.NewMessage("foreign", []byte("{}"))
		m.Metadata.Set("other", "x")
		tp := "all"
		if !sharedTopic {
			tp = topicFor(marsh.Name(c15Value(isProto, t.Int(c15Types), 0)))
		}
		sent = append(sent, &c15Sent{typ: -1, name: "", topic: tp, msg: m, kind: 2})
	}

	// ---- phase 2: processors in a Router fed by scripted subscribers
	rig := newRouterRig(r, 30*time.Second)
	var hs []*c15Handler
	var calls []*c15Call
	var ev int64
	byName := map[string]*c15Handler{}
	// a third of the group runs: the Run context (hence every message context) is cancelled inside the k-th handler
	// invocation; the remaining matching handlers of that message must still be called
	cancelAtCall := -1
	if (procKind == 2 || procKind == 0) && t.Chance(1, 3) {
		// (also inside a command handler: a failing one is still settled as AckCommandHandlingErrors says)
		cancelAtCall = 1 + t.Int(4)
		r.Param("cancel_in_group", 1)
	}
	totalCalls := 0
	sentByUUID := map[string]*c15Sent{} // filled before the router starts
	rec := func(handler string, typ int, ctx context.Context, v any) error {
		h := byName[handler]
		h.calls++
		totalCalls++
		if totalCalls == cancelAtCall {
			r.Fault("context-cancel-inside-group-handler")
			rig.cancel()
		}
		c := &c15Call{h: h, value: v}
		ev++
		c.ev = ev
		if om := cqrs.OriginalMessageFromCtx(ctx); om != nil {
			c.d = h.sub.DeliveryFor(om)
			c.ctxOK = c.d != nil
		}
		// the value is compared now: the processor may reuse the object for the next message
		if c.d != nil {
			if sm := sentByUUID[c.d.Msg.UUID]; sm != nil && sm.kind == 0 {
				c.valueChecked, c.valueEqual = true, c15Equal(v, sm.value)
			}
		}
		if h.failAt[h.calls] {
			r.Fault("handler-error")
			c.err = errC15
		}
		calls = append(calls, c)
		// the handler owns the value it was given and changes it: the next handler of the same message gets its own
		c15Mutate(v)
		return c.err
	}
	mkSub := func(topic string) *ScriptedSubscriber {
		s := NewScriptedSubscriber(r, "sub-"+topic)
		s.MaxRedeliver = 1 + t.Int(2)
		if t.Chance(1, 3) {
			// a Pub/Sub whose deliveries arrive with a context that already names some other message as "the original
			// message" (one that derives delivery contexts from the publisher's context, an in-process relay, ...)
			other := message.NewMessage("somebody-elses-original", nil)
			s.CtxDecor = func(ctx context.Context, m *message.Message, cancel context.CancelFunc) context.Context {
				return cqrs.CtxWithOriginalMessage(ctx, other)
			}
			r.Probe("deliveries-arrive-with-a-stale-original-message")
		}
		for _, sm := range sent {
			if sm.topic == topic {
				s.Script[topic] = append(s.Script[topic], ScriptMsg{UUID: sm.msg.UUID, Payload: string(sm.msg.Payload), Metadata: copyMeta(sm.msg.Metadata)})
			}
		}
		return s
	}
	newHandler := func(i, typ int, group string) *c15Handler {
		h := &c15Handler{name: fmt.Sprintf("h%d-type%d", i, typ), typ: typ, group: group, failAt: map[int]bool{}}
		if t.Chance(1, 3) {
			h.failAt[1+t.Int(3)] = true
		}
		byName[h.name] = h
		hs = append(hs, h)
		return h
	}
	typName := func(typ int) string { return marsh.Name(c15Value(isProto, typ, 0)) }
	nHandlers := 1 + t.Skewed(5)
	var cmdHook cqrs.CommandProcessorOnHandleFn
	var evHook cqrs.EventProcessorOnHandleFn
	var grpHook cqrs.EventGroupProcessorOnHandleFn
	if hooks {
		cmdHook = func(p cqrs.CommandProcessorOnHandleParams) error {
			return p.Handler.Handle(p.Message.Context(), p.Command)
		}
		evHook = func(p cqrs.EventProcessorOnHandleParams) error {
			return p.Handler.Handle(p.Message.Context(), p.Event)
		}
		grpHook = func(p cqrs.EventGroupProcessorOnHandleParams) error {
			return p.Handler.Handle(p.Message.Context(), p.Event)
		}
	}
	switch procKind {
	case 0:
		p, perr := cqrs.NewCommandProcessorWithConfig(rig.Router, cqrs.CommandProcessorConfig{
			GenerateSubscribeTopic: func(p cqrs.CommandProcessorGenerateSubscribeTopicParams) (string, error) { return topicFor(p.CommandName), nil },
			SubscriberConstructor: func(p cqrs.CommandProcessorSubscriberConstructorParams) (message.Subscriber, error) {
				return byName[p.HandlerName].sub, nil
			},
			Marshaler:                marsh,
			AckCommandHandlingErrors: ackCmdErrors,
			OnHandle:                 cmdHook,
		})
		if perr != nil {
			r.HarnessErr = perr.Error()
			return
		}
		used := map[int]bool{}
		for i := 0; i < nHandlers; i++ {
			typ := t.Int(c15Types)
			if used[typ] {
				continue // one handler per command type
			}
			used[typ] = true
			h := newHandler(i, typ, "")
			h.topic = topicFor(typName(typ))
			h.sub = mkSub(h.topic)
			if _, aerr := p.AddHandler(c15CmdHandler(isProto, typ, h.name, rec)); aerr != nil {
				r.HarnessErr = aerr.Error()
				return
			}
		}
	case 1:
		p, perr := cqrs.NewEventProcessorWithConfig(rig.Router, cqrs.EventProcessorConfig{
			GenerateSubscribeTopic: func(p cqrs.EventProcessorGenerateSubscribeTopicParams) (string, error) { return topicFor(p.EventName), nil },
			SubscriberConstructor: func(p cqrs.EventProcessorSubscriberConstructorParams) (message.Subscriber, error) {
				return byName[p.HandlerName].sub, nil
			},
			Marshaler:         marsh,
			AckOnUnknownEvent: ackUnknown,
			OnHandle:          evHook,
		})
		if perr != nil {
			r.HarnessErr = perr.Error()
			return
		}
		for i := 0; i < nHandlers; i++ {
			typ := t.Int(c15Types)
			h := newHandler(i, typ, "")
			h.topic = topicFor(typName(typ))
			h.sub = mkSub(h.topic)
			if _, aerr := p.AddHandler(c15EvHandler(isProto, typ, h.name, rec)); aerr != nil {
				r.HarnessErr = aerr.Error()
				return
			}
		}
	default:
		groupSubs := map[string]*ScriptedSubscriber{}
		p, perr := cqrs.NewEventGroupProcessorWithConfig(rig.Router, cqrs.EventGroupProcessorConfig{
			GenerateSubscribeTopic: func(p cqrs.EventGroupProcessorGenerateSubscribeTopicParams) (string, error) { return "all", nil },
			SubscriberConstructor: func(p cqrs.EventGroupProcessorSubscriberConstructorParams) (message.Subscriber, error) {
				return groupSubs[p.EventGroupName], nil
			},
			Marshaler:         marsh,
			AckOnUnknownEvent: ackUnknown,
			OnHandle:          grpHook,
		})
		if perr != nil {
			r.HarnessErr = perr.Error()
			return
		}
		// groups read one topic carrying everything
		for _, sm := range sent {
			sm.topic = "all"
		}
		nGroups := 1 + t.Int(2)
		idx := 0
		for g := 0; g < nGroups; g++ {
			gname := fmt.Sprintf("group%d", g)
			sub := mkSub("all")
			groupSubs[gname] = sub
			var ghs []cqrs.GroupEventHandler
			n := 1 + t.Skewed(4)
			for i := 0; i < n; i++ {
				typ := t.Int(c15Types)
				h := newHandler(idx, typ, gname)
				idx++
				h.topic = "all"
				h.sub = sub
				ghs = append(ghs, c15GrpHandler(isProto, typ, h.name, rec))
			}
			if aerr := p.AddHandlersGroup(gname, ghs...); aerr != nil {
				r.HarnessErr = aerr.Error()
				return
			}
		}
	}
	for _, h := range hs {
		r.Describe("handler %s group=%q topic=%s failAt=%v script=%d messages", h.name, h.group, h.topic, h.failAt, len(h.sub.Script[h.topic]))
	}
	for _, sm := range sent {
		sentByUUID[sm.msg.UUID] = sm
	}

	r.Sim.AtEnd(func() {
		// nothing can be dispatched to a handler that was never wired to its topic
		for _, h := range hs {
			if h.sub.Subscribes[h.topic] == 0 {
				r.Fail("C15.R2", "a registered handler was never subscribed to its topic", "%s on %s", h.name, h.topic)
			}
		}
		// per subscription: which handlers share it (groups) in registration order
		seenSub := map[*ScriptedSubscriber]bool{}
		for _, h := range hs {
			if seenSub[h.sub] {
				continue
			}
			seenSub[h.sub] = true
			var members []*c15Handler
			for _, x := range hs {
				if x.sub == h.sub {
					members = append(members, x)
				}
			}
			for _, d := range h.sub.Deliveries {
				sm := sentByUUID[d.Msg.UUID]
				if sm == nil {
					continue
				}
				what := fmt.Sprintf("delivery %s#%d (type name %q, kind %d) on the subscription of %s", d.Msg.UUID, d.Attempt, sm.name, sm.kind, h.name)
				var got []*c15Call
				for _, c := range calls {
					if c.d == d {
						got = append(got, c)
					}
				}
				for _, c := range calls {
					if c.d == nil {
						r.Fail("C15.R4", "the handler's context does not expose the original message", "%s", c.h.name)
					}
				}
				if r.Params["cancel_in_group"] == 1 && len(got) == 0 {
					continue // emitted while everything was being cancelled: never reached the group
				}
				// expected invocations
				var want []*c15Handler
				if sm.kind == 0 {
					for _, x := range members {
						if typName(x.typ) == sm.name {
							want = append(want, x)
						}
					}
				}
				if sm.kind != 0 {
					// malformed or foreign: never reaches a handler
					if len(got) != 0 {
						r.Fail("C15.R2", "a malformed or foreign message reached a handler", "%s: %d invocations", what, len(got))
					}
					if sm.kind == 2 || len(want) == 0 {
						c15CheckUnknown(r, d, procKind, ackUnknown, what, sm, members, typName)
					}
					continue
				}
				// prefix rule: called in registration order, stopping at the first error
				expectN := 0
				failed := false
				for i := range want {
					expectN = i + 1
					if i < len(got) && got[i].err != nil {
						failed = true
						break
					}
				}
				if len(want) == 0 {
					if len(got) != 0 {
						r.Fail("C15.R2", "a handler was invoked for a message of another type", "%s: invoked %s", what, got[0].h.name)
					}
					c15CheckUnknown(r, d, procKind, ackUnknown, what, sm, members, typName)
					continue
				}
				if r.Params["cancel_in_group"] == 1 && len(got) < expectN && !failed && !d.Acked() {
					// the message context ended inside the group: stopping there is fine as long as the message is not acked
					r.Probe("group-stopped-on-ended-context-without-ack")
					continue
				}
				if len(got) != expectN {
					sig := "a matching handler was not invoked exactly once for a delivered message"
					if procKind == 2 {
						sig = "a group did not call its matching handlers in order, stopping at the first error"
					}
					r.Fail("C15.R2", sig, "%s: %d invocations, expected %d (matching handlers %d)", what, len(got), expectN, len(want))
					continue
				}
				for i, c := range got {
					if c.h != want[i] {
						r.Fail("C15.R2", "handlers of a group were not called in registration order (or a non-matching handler was called)", "%s: position %d is %s, expected %s", what, i, c.h.name, want[i].name)
					}
					if (c.valueChecked && !c.valueEqual) || (!c.valueChecked && !c15Equal(c.value, sm.value)) {
						r.Fail("C15.R3", "the handler received a value different from the one sent", "%s: %v vs %v", what, c.value, sm.value)
					}
				}
				wantAck := !failed
				if failed && procKind == 0 && ackCmdErrors {
					wantAck = true
				}
				if d.Acked() != wantAck || d.Nacked() == wantAck {
					sig := "a message whose handler failed was not Nacked"
					if wantAck && failed {
						sig = "AckCommandHandlingErrors: a failed command was not acked"
					} else if wantAck {
						sig = "a successfully handled message was not acked"
					}
					r.Fail("C15.R5", sig, "%s: acked=%v nacked=%v", what, d.Acked(), d.Nacked())
				}
			}
		}
		if len(calls) > 0 {
			r.Probe("handlers-invoked")
		}
	})
	rig.Start()
	r.Sim.Quiesce()
	rig.Router.Close()
}

func c15CheckUnknown(r *Run, d *Delivery, procKind int, ackUnknown bool, what string, sm *c15Sent, members []*c15Handler, typName func(int) string) {
	if sm.kind == 1 {
		// malformed payload of a known type: must not reach a handler; its settlement is not asserted
		for _, x := range members {
			if typName(x.typ) == sm.name {
				return
			}
		}
	}
	wantAck := true
	if procKind != 0 {
		wantAck = ackUnknown
	}
	if d.Acked() != wantAck || d.Nacked() == wantAck {
		sig := "a message of another type was not settled as AckOnUnknownEvent prescribes"
		if procKind == 0 {
			sig = "a command of another type was not acknowledged"
		}
		r.Fail("C15.R5", sig, "%s: acked=%v nacked=%v, AckOnUnknownEvent=%v", what, d.Acked(), d.Nacked(), ackUnknown)
	}
}

var _ = strings.Join

func init() {
	Register(&Scenario{
		Prop: "C15", Name: "cqrs-dispatch",
		Setup: func(r *Run) simrt.Config {
			c := BaseConfig()
			c.Horizon = 10 * time.Minute
			MaybeFine(r, &c, "watermill/message.", 1, 4)
			return c
		},
		Body:  c15Body,
		Real:  []string{"components/cqrs CommandBus, EventBus, CommandProcessor, EventProcessor, EventGroupProcessor, JSONMarshaler, ProtoMarshaler, name generators, ctx", "message.Router"},
		Stubs: []string{"ScriptedPublisher capturing bus output", "ScriptedSubscriber per handler / group with redelivery", "scripted handler failures"},
	})
}
