package scen

import (
	"context"
	"fmt"
	"time"

	"github.com/ThreeDotsLabs/watermill/message"
	"github.com/ThreeDotsLabs/watermill/pubsub/gochannel"
	"github.com/ThreeDotsLabs/watermill/verifsim/simrt"
)

// C05, tear-down: the Pub/Sub is closed (or the subscription cancelled) while the subscription holds one unsettled
// message and further messages are queued behind it. Until the consumer settles the message it holds, nothing else may
// become receivable — the channel may only be closed. Publish calls all return.
func c05CloseWhileHolding(r *Run) {
	t := r.T
	cfg := gochannel.Config{OutputChannelBuffer: int64(simrt.Pick(t, 0, 1, 1, 3)), Persistent: t.Chance(1, 4), BlockPublishUntilSubscriberAck: t.Chance(1, 3)}
	nQueued := 1 + t.Skewed(5)
	viaCancel := t.Chance(1, 3)
	closeAfter := time.Duration(t.Int(4)) * time.Millisecond
	holdFor := closeAfter + time.Duration(1+t.Int(6))*time.Millisecond
	r.Describe("GoChannel{buffer:%d persistent:%v blocking:%v}: one subscription holds its first message for %v, %d more messages are published meanwhile, tear-down (cancel=%v, else Close) after %v",
		cfg.OutputChannelBuffer, cfg.Persistent, cfg.BlockPublishUntilSubscriberAck, holdFor, nQueued, viaCancel, closeAfter)
	ps := gochannel.NewGoChannel(cfg, nil)
	ctx, cancel := context.WithCancel(context.Background())
	defer cancel()
	ch, err := ps.Subscribe(ctx, "t")
	if err != nil {
		r.HarnessErr = err.Error()
		return
	}
	returned := 0
	for i := 0; i <= nQueued; i++ {
		i := i
		go func() {
			ps.Publish("t", message.NewMessage(fmt.Sprintf("m%d", i), []byte("p")))
			returned++
		}()
	}
	closeReturned := false
	first, ok := <-ch
	if !ok {
		r.HarnessErr = "channel closed before the first message"
		return
	}
	go func() {
		time.Sleep(closeAfter)
		if viaCancel {
			r.Fault("subscription-cancel")
			cancel()
		} else {
			r.Fault("pubsub-close")
			ps.Close()
		}
		closeReturned = true
	}()
	deadline := time.Now().Add(holdFor)
	for time.Now().Before(deadline) {
		if m, open, got := simrt.TryRecvRaw(ch); got && open {
			r.Fail("C05.R1", "a second message is receivable while the previous delivery is unsettled",
				"%s became receivable while %s is unsettled (tear-down by cancel=%v issued=%v)", m.UUID, first.UUID, viaCancel, closeReturned)
			return
		}
		time.Sleep(200 * time.Microsecond)
	}
	first.Ack()
	// drain: whatever comes now is acked at once
	go func() {
		for m := range ch {
			m.Ack()
		}
	}()
	r.Sim.Quiesce()
	if !viaCancel && !closeReturned {
		r.Fail("C05.R4", "Close never returned although the consumer settled its message", "")
	}
	if viaCancel {
		ps.Close()
		r.Sim.Quiesce()
	}
	if returned != nQueued+1 {
		r.Fail("C05.R4", "a Publish call is still blocked at quiescence although every subscriber settled its messages or was closed", "%d of %d Publish calls returned", returned, nQueued+1)
	}
}

func init() {
	Register(&Scenario{Prop: "C05", Name: "tear-down-while-holding", Setup: func(r *Run) simrt.Config {
		c := BaseConfig()
		c.Fine = true
		c.FinePkg = "pubsub/gochannel."
		c.Horizon = time.Minute
		return c
	}, Body: c05CloseWhileHolding, Real: gcReal, Stubs: gcStubs, Weight: 2})
}
