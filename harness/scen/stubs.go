package scen

import (
	"context"
	"errors"
	"fmt"
	"sync"
	"time"

	"github.com/ThreeDotsLabs/watermill/message"
)

// ---------------------------------------------------------------------------
// ScriptedSubscriber: a small broker model that feeds a generated stream.
// It emits each scripted message, waits for its settlement, redelivers a fresh
// copy after a Nack (at most MaxRedeliver times), honours the Subscribe context
// and Close, and records everything.

type Delivery struct {
	Idx     int // index in the script
	Attempt int
	Msg     *message.Message
	Step    int64
	Topic   string
	Emitted bool
	SubN    int // number of the Subscribe call (1-based) this delivery belongs to
	Sub     *ScriptedSubscriber
	// scenario scratch space
	Handled  int
	Started  int64
	Finished int64
	Tag      any
}

func (d *Delivery) Acked() bool  { return isClosed(d.Msg.Acked()) }
func (d *Delivery) Nacked() bool { return isClosed(d.Msg.Nacked()) }
func (d *Delivery) Settled() bool {
	return d.Acked() || d.Nacked()
}

func isClosed(ch <-chan struct{}) bool {
	if ch == nil {
		return false
	}
	// raw, non-yielding probe: this file is rewritten, so spell it through simrt
	return rawClosed(ch)
}

type ScriptMsg struct {
	UUID     string
	Payload  string
	Metadata map[string]string
	Dup      int // extra deliveries even when acked (duplicate fault)
}

type ScriptedSubscriber struct {
	R            *Run
	Name         string
	Script       map[string][]ScriptMsg // per topic
	Lanes        int                    // messages in flight at once (>=1)
	MaxRedeliver int                    // per message; <0 unlimited
	OnEmit       func(d *Delivery)

	Subscribes map[string]int
	Closes     int
	Deliveries []*Delivery // emitted deliveries in emission order
	ByMsg      map[*message.Message]*Delivery
	closing    chan struct{}
	closed     bool
	wg         sync.WaitGroup
	// CloseErrAt: Close call number (1-based) that returns an error (the subscriber is closed all the same)
	CloseErrAt int
	// CloseWaits: Close (and the end of the subscription) waits until the message in flight has been settled
	CloseWaits bool
	// SubscribeErrAt: Subscribe call number (1-based) that fails
	SubscribeErrAt int
	// CtxDecor, when set, shapes the context a delivery carries (values it already holds, a deadline, already ended):
	// it gets the delivery's context and its cancel function and returns the context to use
	CtxDecor func(ctx context.Context, m *message.Message, cancel context.CancelFunc) context.Context
	nSub           int
}

// ErrScriptedSubscribe is what a scripted failing Subscribe returns.
var ErrScriptedSubscribe = errors.New("scripted subscribe error")

// DeliveryFor finds the delivery a message stands for: the emitted object itself, or (for components that pass on an
// equal copy) the latest delivery with the same UUID, an unsettled one first.
func (s *ScriptedSubscriber) DeliveryFor(m *message.Message) *Delivery {
	if d := s.ByMsg[m]; d != nil {
		return d
	}
	var found *Delivery
	for _, d := range s.Deliveries {
		if d.Msg.UUID != m.UUID {
			continue
		}
		if found == nil || !d.Settled() || found.Settled() {
			found = d
		}
	}
	return found
}

func NewScriptedSubscriber(r *Run, name string) *ScriptedSubscriber {
	return &ScriptedSubscriber{R: r, Name: name, Script: map[string][]ScriptMsg{}, Lanes: 1, MaxRedeliver: 6,
		Subscribes: map[string]int{}, closing: make(chan struct{}), ByMsg: map[*message.Message]*Delivery{}}
}

func (s *ScriptedSubscriber) Subscribe(ctx context.Context, topic string) (<-chan *message.Message, error) {
	s.nSub++
	s.Subscribes[topic]++
	if s.SubscribeErrAt == s.nSub {
		return nil, ErrScriptedSubscribe
	}
	if s.closed {
		return nil, errors.New("scripted subscriber closed")
	}
	out := make(chan *message.Message)
	script := s.Script[topic]
	subN := s.nSub
	lanes := s.Lanes
	if lanes < 1 {
		lanes = 1
	}
	var laneWg sync.WaitGroup
	s.wg.Add(1)
	for l := 0; l < lanes; l++ {
		l := l
		laneWg.Add(1)
		go func() {
			defer laneWg.Done()
			for i := l; i < len(script); i += lanes {
				if !s.deliver(ctx, out, topic, subN, i, script[i]) {
					return
				}
			}
		}()
	}
	go func() {
		defer s.wg.Done()
		select {
		case <-ctx.Done():
		case <-s.closing:
		}
		laneWg.Wait()
		close(out)
	}()
	return out, nil
}

// deliver returns false when the subscription ended.
func (s *ScriptedSubscriber) deliver(ctx context.Context, out chan *message.Message, topic string, subN, idx int, sm ScriptMsg) bool {
	extra := sm.Dup
	for attempt := 0; ; attempt++ {
		m := message.NewMessage(sm.UUID, []byte(sm.Payload))
		for k, v := range sm.Metadata {
			m.Metadata[k] = v // (written directly: Set is code under test)
		}
		mctx, cancel := context.WithCancel(ctx)
		if s.CtxDecor != nil {
			mctx = s.CtxDecor(mctx, m, cancel)
		}
		m.SetContext(mctx)
		m.Metadata.Set("x-attempt", fmt.Sprint(attempt))
		d := &Delivery{Idx: idx, Attempt: attempt, Msg: m, Topic: topic, Sub: s, SubN: subN}
		// registered before the send: the receiver may run before this goroutine is scheduled again
		d.Emitted = true
		d.Step = s.R.Sim.Step()
		s.Deliveries = append(s.Deliveries, d)
		s.ByMsg[m] = d
		unemit := func() {
			d.Emitted = false
			delete(s.ByMsg, m)
			for i, x := range s.Deliveries {
				if x == d {
					s.Deliveries = append(s.Deliveries[:i], s.Deliveries[i+1:]...)
					break
				}
			}
		}
		select {
		case out <- m:
		case <-ctx.Done():
			unemit()
			cancel()
			return false
		case <-s.closing:
			unemit()
			cancel()
			return false
		}
		if s.OnEmit != nil {
			s.OnEmit(d)
		}
		closing, ctxDone := s.closing, ctx.Done()
		if s.CloseWaits {
			closing, ctxDone = nil, nil // like a broker client whose Close waits until the message in flight is settled
		}
		select {
		case <-m.Acked():
			cancel()
			if extra > 0 {
				extra--
				s.R.Fault("subscriber-duplicate")
				continue
			}
			return true
		case <-m.Nacked():
			cancel()
			if s.MaxRedeliver >= 0 && attempt >= s.MaxRedeliver {
				return true
			}
			continue
		case <-ctxDone:
			cancel()
			return false
		case <-closing:
			cancel()
			return false
		}
	}
}

func (s *ScriptedSubscriber) Close() error {
	s.Closes++
	if !s.closed {
		s.closed = true
		close(s.closing)
	}
	s.wg.Wait()
	if s.CloseErrAt == s.Closes {
		return ErrScriptedClose
	}
	return nil
}

// ErrScriptedClose is what a scripted failing Close returns.
var ErrScriptedClose = errors.New("scripted close error")

// DeliveriesOf returns the deliveries of script entry idx on topic in order.
func (s *ScriptedSubscriber) DeliveriesOf(topic string, idx int) []*Delivery {
	var out []*Delivery
	for _, d := range s.Deliveries {
		if d.Topic == topic && d.Idx == idx {
			out = append(out, d)
		}
	}
	return out
}

// ---------------------------------------------------------------------------
// ScriptedPublisher records calls and injects failures.

type PubFault int

const (
	PubOK PubFault = iota
	PubErr
	PubPanic
	PubErrAfterAccept // forward to Inner, then report an error ("ack lost")
	PubErrCanceled    // fail with context.Canceled (plain on odd calls, wrapped on even ones): still a failure
)

func (f PubFault) String() string {
	return [...]string{"ok", "publisher-error", "publisher-panic", "publisher-error-after-accept", "publisher-error-context-canceled"}[f]
}

type PubCall struct {
	N     int
	Topic string
	Msgs  []*message.Message
	Snap  []*message.Message // content copies taken at call time
	Fault PubFault
	Step  int64
	Err   error
}

type ScriptedPublisher struct {
	R      *Run
	Name   string
	Inner  message.Publisher
	FailAt map[int]PubFault // 1-based call number -> fault
	// Decide, when set, chooses the fault from the call's content (schedule independent)
	Decide func(c *PubCall) PubFault
	// Hook runs at the start of every call (oracles sample state here)
	Hook   func(c *PubCall)
	Calls  []*PubCall
	Closes int
	// CloseDelay: Close takes that long; ClosesDone counts the Close calls that have returned
	CloseDelay time.Duration
	ClosesDone int
}

func NewScriptedPublisher(r *Run, name string) *ScriptedPublisher {
	return &ScriptedPublisher{R: r, Name: name, FailAt: map[int]PubFault{}}
}

var ErrScriptedPublish = errors.New("scripted publish error")

// SnapMsg is the harness's own content copy of a message (UUID, payload, every metadata key): Message.Copy and
// Metadata.Set are code under test and must not decide what the oracles compare against.
func SnapMsg(m *message.Message) *message.Message {
	c := &message.Message{UUID: m.UUID, Payload: append(message.Payload(nil), m.Payload...), Metadata: message.Metadata{}}
	for k, v := range m.Metadata {
		c.Metadata[k] = v
	}
	return c
}

func (p *ScriptedPublisher) Publish(topic string, msgs ...*message.Message) error {
	c := &PubCall{N: len(p.Calls) + 1, Topic: topic, Msgs: append([]*message.Message(nil), msgs...), Step: p.R.Sim.Step()}
	for _, m := range msgs {
		c.Snap = append(c.Snap, SnapMsg(m))
	}
	c.Fault = p.FailAt[c.N]
	if p.Decide != nil {
		c.Fault = p.Decide(c)
	}
	p.Calls = append(p.Calls, c)
	if p.Hook != nil {
		p.Hook(c)
	}
	switch c.Fault {
	case PubErr:
		p.R.Fault(c.Fault.String())
		c.Err = ErrScriptedPublish
		return c.Err
	case PubErrCanceled:
		p.R.Fault(c.Fault.String())
		c.Err = context.Canceled
		if c.N%2 == 0 {
			c.Err = fmt.Errorf("publishing interrupted: %w", context.Canceled)
		}
		return c.Err
	case PubPanic:
		p.R.Fault(c.Fault.String())
		c.Err = ErrScriptedPublish
		panic(fmt.Sprintf("scripted publisher panic (%s call %d)", p.Name, c.N))
	}
	if p.Inner != nil {
		if err := p.Inner.Publish(topic, msgs...); err != nil {
			c.Err = err
			return err
		}
	}
	if c.Fault == PubErrAfterAccept {
		p.R.Fault(c.Fault.String())
		c.Err = ErrScriptedPublish
		return c.Err
	}
	return nil
}

func (p *ScriptedPublisher) Close() error {
	p.Closes++
	if p.CloseDelay > 0 {
		time.Sleep(p.CloseDelay) // a publisher that flushes before it is closed
	}
	p.ClosesDone++
	return nil
}

// Accepted returns the calls that returned nil.
func (p *ScriptedPublisher) Accepted() []*PubCall {
	var out []*PubCall
	for _, c := range p.Calls {
		if c.Err == nil {
			out = append(out, c)
		}
	}
	return out
}

// ---------------------------------------------------------------------------
// CountingSubscriber wraps a real subscriber and counts Subscribe calls per topic.

type CountingSubscriber struct {
	Inner    message.Subscriber
	Invoked  map[string]int
	Returned map[string]int
	Closes   int
	// FailOnce: the first Subscribe on that topic fails (a transient broker error); Failed counts those
	FailOnce map[string]bool
	Failed   map[string]int
}

func NewCountingSubscriber(inner message.Subscriber) *CountingSubscriber {
	return &CountingSubscriber{Inner: inner, Invoked: map[string]int{}, Returned: map[string]int{}, FailOnce: map[string]bool{}, Failed: map[string]int{}}
}

func (c *CountingSubscriber) Subscribe(ctx context.Context, topic string) (<-chan *message.Message, error) {
	if c.FailOnce[topic] {
		c.FailOnce[topic] = false
		c.Failed[topic]++
		return nil, ErrScriptedSubscribe
	}
	c.Invoked[topic]++
	ch, err := c.Inner.Subscribe(ctx, topic)
	if err == nil {
		c.Returned[topic]++
	}
	return ch, err
}

func (c *CountingSubscriber) Close() error {
	c.Closes++
	return c.Inner.Close()
}
