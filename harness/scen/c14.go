package scen

import (
	"context"
	"errors"
	"fmt"
	"sync"
	"time"

	"github.com/ThreeDotsLabs/watermill/message"
	"github.com/ThreeDotsLabs/watermill/message/router/middleware"
	"github.com/ThreeDotsLabs/watermill/verifsim/simrt"
)

// C14 — Deduplicator lets exactly one message per key through per window.

type c14Pres struct {
	key        string // harness-level identity of the deduplication key
	payload    string
	inv, ret   time.Duration
	invEv      int64
	retEv      int64
	accepted   bool
	returned   bool
	outs       int
	err        error
	acked      bool
	wave       int
	gaveUp     bool // returned the ended context's error: neither let through nor dropped; presented again
	failing    bool // the wrapped handler / publisher fails for this message if it gets there
}

func c14Payload(limit int, keyIdx int, variant int) string {
	// payloads around the read limit: equal up to the limit => same key
	base := fmt.Sprintf("key-%02d-", keyIdx)
	for len(base) < limit {
		base += string(rune('a' + (len(base)+keyIdx)%26))
	}
	switch variant {
	case 0:
		return base // exactly as long as the limit
	case 1:
		return base + "tail-one" // differs beyond the limit only
	default:
		return base + "another-tail-beyond-the-limit"
	}
}

func c14Setup(r *Run) simrt.Config {
	c := BaseConfig()
	window := time.Duration(1+r.T.Int(50)) * time.Millisecond
	r.Param("window_ms", int(window/time.Millisecond))
	c.Horizon = 4*window + 20*time.Millisecond
	// the repository's clean-up goroutine ticks for ever: goroutines started inside the middleware package are daemons
	c.Daemons = []string{"router/middleware."}
	if r.T.Chance(1, 2) {
		c.Fine = true
		// statement-level yields in the whole middleware package: repository, Deduplicator and the hasher closures
		c.FinePkg = "router/middleware."
	}
	c.StepCap = 40000
	if r.T.Chance(1, 3) {
		// stalled runs: the "accepted again after two windows" clause presumes a stall-free run and is skipped
		c.ClockJumps, c.JumpMax, c.JumpWithin = 3, 3*window, 800
		r.Param("stalled", 1)
	}
	return c
}

func c14Body(r *Run) {
	t := r.T
	window := time.Duration(r.Params["window_ms"]) * time.Millisecond
	useDecorator := t.Chance(1, 2)
	hasher := t.Int(3) // 0 adler32, 1 sha256, 2 metadata field
	nKeys := 1 + t.Skewed(4)
	nG := 1 + t.Skewed(32)
	waves := 1 + t.Int(4)
	// gap between waves in halves of the window: 1 => 0.5w ... 5 => 2.5w
	var gaps []int
	for i := 0; i < waves; i++ {
		gaps = append(gaps, simrt.Pick(t, 1, 2, 3, 4, 5))
	}
	repo, err := middleware.NewMapExpiringKeyRepository(window)
	if err != nil {
		r.HarnessErr = err.Error()
		return
	}
	d := &middleware.Deduplicator{Repository: repo, Timeout: time.Second}
	// a fifth of the runs: no Repository is given (the default one remembers for a minute) and the same Deduplicator is
	// installed in two places (as a router does with a router-level middleware): it is still ONE deduplication domain
	defaultRepo := t.Chance(1, 5)
	if defaultRepo {
		d.Repository = nil
		window = time.Minute
		r.Probe("default-repository-two-wraps")
	}
	// the read limit of the byte hashers: the minimum (64) or something that is not a multiple of any hash block size
	limit := simrt.Pick(t, 64, 64, 65, 66, 100, 127)
	switch hasher {
	case 0:
		d.KeyFactory = middleware.NewMessageHasherAdler32(int64(limit))
	case 1:
		if limit == 64 {
			d.KeyFactory = middleware.NewMessageHasherSHA256(10) // below the minimum: 64 is used
		} else {
			d.KeyFactory = middleware.NewMessageHasherSHA256(int64(limit))
		}
	default:
		d.KeyFactory = middleware.NewMessageHasherFromMetadataField("dedup")
	}
	r.Describe("window=%v decorator=%v hasher=%d (read limit %d) keys=%d goroutines=%d waves=%d gaps(half windows)=%v", window, useDecorator, hasher, limit, nKeys, nG, waves, gaps)

	// R4: hasher laws on the generated payloads
	for k := 0; k < nKeys; k++ {
		var keys []string
		for v := 0; v < 3; v++ {
			m := message.NewMessage("x", []byte(c14Payload(limit, k, v)))
			m.Metadata.Set("dedup", fmt.Sprintf("field-key-%d", k))
			key, kerr := d.KeyFactory(m)
			if kerr != nil {
				r.Fail("C14.R4", "a built-in hasher failed on a valid message", "%v", kerr)
				return
			}
			keys = append(keys, key)
		}
		if keys[0] != keys[1] || keys[1] != keys[2] {
			r.Fail("C14.R4", "payloads equal up to the read limit got different keys", "hasher %d key index %d", hasher, k)
		}
		if hasher == 1 && k > 0 {
			m := message.NewMessage("x", []byte(c14Payload(limit, k-1, 0)))
			prev, _ := d.KeyFactory(m)
			if prev == keys[0] {
				r.Fail("C14.R4", "SHA-256 hasher gave equal keys for payloads that differ within the read limit", "key index %d and %d", k-1, k)
			}
		}
	}
	var pres []*c14Pres
	var ev int64
	handled := map[*message.Message]bool{}
	inner := NewScriptedPublisher(r, "inner")
	inner.Decide = func(c *PubCall) PubFault {
		if len(c.Msgs) > 0 && c.Msgs[0].Metadata.Get("fail") == "1" {
			return PubErr
		}
		return PubOK
	}
	errHandler := errors.New("scripted handler error")
	handler := d.Middleware(func(m *message.Message) ([]*message.Message, error) {
		handled[m] = true
		if m.Metadata.Get("fail") == "1" {
			r.Fault("handler-error")
			return nil, errHandler
		}
		return []*message.Message{message.NewMessage(m.UUID+">o", nil)}, nil
	})
	var decorated message.Publisher
	if useDecorator {
		decorated, err = d.PublisherDecorator()(inner)
		if err != nil {
			r.HarnessErr = err.Error()
			return
		}
	}
	handler2, decorated2 := handler, decorated
	// the same Deduplicator installed in two places is ONE deduplication domain, also after one of the two decorated
	// publishers has been closed (a router closes a handler's publisher when the handler stops)
	twoWraps := defaultRepo || t.Chance(1, 3)
	closeSecond := twoWraps && useDecorator && t.Chance(1, 2)
	secondClosed := false
	if twoWraps {
		handler2 = d.Middleware(func(m *message.Message) ([]*message.Message, error) {
			handled[m] = true
			if m.Metadata.Get("fail") == "1" {
				r.Fault("handler-error")
				return nil, errHandler
			}
			return []*message.Message{message.NewMessage(m.UUID+">o", nil)}, nil
		})
		if useDecorator {
			if decorated2, err = d.PublisherDecorator()(inner); err != nil {
				r.HarnessErr = err.Error()
				return
			}
		}
	}
	type job struct {
		g, wave, keyIdx, variant int
		cancelledCtx             bool
		wrap                     int // which of the two places the Deduplicator is installed in
		failing                  bool
	}
	var present func(j job)
	present = func(j job) {
		payload := c14Payload(limit, j.keyIdx, j.variant)
		m := message.NewMessage(fmt.Sprintf("w%d-g%d", j.wave, j.g), []byte(payload))
		m.Metadata.Set("dedup", fmt.Sprintf("field-key-%d", j.keyIdx))
		if j.cancelledCtx {
			// an ended context: the deduplicator may answer as usual or give up with the context's error, in which case
			// the message counts as neither let through nor dropped and is presented again (as a broker would redeliver)
			cctx, ccancel := context.WithCancel(context.Background())
			ccancel()
			m.SetContext(cctx)
		}
		if j.failing {
			m.Metadata.Set("fail", "1")
		}
		p := &c14Pres{key: fmt.Sprintf("k%d", j.keyIdx), payload: payload, wave: j.wave, failing: j.failing}
		pres = append(pres, p)
		ev++
		p.invEv, p.inv = ev, r.Sim.Now()
		if useDecorator {
			pub := decorated
			if j.wrap == 1 && !secondClosed {
				pub = decorated2
			}
			p.err = pub.Publish("topic", m)
			for _, c := range inner.Calls {
				for _, x := range c.Msgs {
					if x == m {
						p.accepted = true
					}
				}
			}
			p.acked = rawClosed(m.Acked())
		} else {
			var outs []*message.Message
			hf := handler
			if j.wrap == 1 {
				hf = handler2
			}
			outs, p.err = hf(m)
			p.outs = len(outs)
			p.accepted = handled[m]
		}
		ev++
		p.retEv, p.ret = ev, r.Sim.Now()
		p.returned = true
		if j.cancelledCtx && p.err != nil && errors.Is(p.err, context.Canceled) && !p.accepted {
			p.gaveUp = true
			r.Probe("deduplicator-gave-up-on-ended-context")
			j.cancelledCtx = false
			present(j)
		}
	}
	// plan: every wave each goroutine presents one message
	plan := make([][]job, waves)
	for w := 0; w < waves; w++ {
		for g := 0; g < nG; g++ {
			plan[w] = append(plan[w], job{g: g, wave: w, keyIdx: t.Int(nKeys), variant: t.Int(3), cancelledCtx: t.Chance(1, 6), wrap: t.Int(2), failing: t.Chance(1, 8)})
		}
	}
	stallFree := r.Params["stalled"] == 0
	r.Sim.AtEnd(func() { c14Check(r, pres, window, useDecorator, hasher, stallFree) })
	for w := 0; w < waves; w++ {
		var wg sync.WaitGroup
		for _, j := range plan[w] {
			j := j
			wg.Add(1)
			go func() {
				defer wg.Done()
				present(j)
			}()
		}
		// wait for the wave, then let the clock pass
		wg.Wait()
		if closeSecond && !secondClosed {
			secondClosed = true
			r.Fault("decorated-publisher-closed")
			if err := decorated2.Close(); err != nil {
				r.Fail("C14.R0", "closing a decorated publisher failed", "%v", err)
			}
		}
		time.Sleep(time.Duration(gaps[w]) * window / 2)
	}
}

func c14Check(r *Run, pres []*c14Pres, window time.Duration, useDecorator bool, hasher int, stallFree bool) {
	byKey := map[string][]*c14Pres{}
	for _, p := range pres {
		if !p.returned {
			r.Fail("C14.R0", "a presentation to the deduplicator never returned", "%s", p.key)
			return
		}
		if p.gaveUp {
			continue
		}
		if p.err != nil && !(p.failing && p.accepted) {
			// (the error of a wrapped handler / publisher that was reached passes through; the message counts as let through)
			r.Fail("C14.R0", "the deduplicator returned an error", "%v", p.err)
			return
		}
		byKey[p.key] = append(byKey[p.key], p)
		// R3: duplicates are dropped as successes
		if !p.accepted {
			if useDecorator && !p.acked {
				r.Fail("C14.R3", "a duplicate dropped by the publisher decorator was not acked", "%s", p.key)
			}
			if !useDecorator && p.outs != 0 {
				r.Fail("C14.R3", "a duplicate produced outputs", "%s", p.key)
			}
		} else if !useDecorator && p.outs != 1 && p.err == nil {
			r.Fail("C14.R3", "an accepted message did not get the handler's result", "%s outs=%d", p.key, p.outs)
		}
	}
	for k, ps := range byKey {
		// R1: two accepted presentations of one key are at least a window apart
		for i, a := range ps {
			if !a.accepted {
				continue
			}
			for _, b := range ps[i+1:] {
				if !b.accepted {
					continue
				}
				// which of the two was accepted first is unknown (a stalled call may be invoked first and accepted last):
				// whichever it was, the later one returned at least a window after the earlier one was invoked
				x, y := a, b
				if y.invEv < x.invEv {
					x, y = y, x
				}
				lastRet := x.ret
				if y.ret > lastRet {
					lastRet = y.ret
				}
				if lastRet < x.inv+window {
					sig := "two messages with the same key were both let through within one retention window"
					if x.wave == y.wave {
						sig = "two concurrently arriving messages with the same key were both let through"
					}
					r.Fail("C14.R1", sig, "key %s: accepted at %v..%v and %v..%v, window %v", k, x.inv, x.ret, y.inv, y.ret, window)
				}
			}
		}
		// R2: a rejected presentation needs a recent acceptance
		for _, b := range ps {
			if b.accepted {
				continue
			}
			if !stallFree {
				// only "never accepted before" can be demanded
				ever := false
				for _, a := range ps {
					if a.accepted && a.invEv < b.retEv {
						ever = true
					}
				}
				if !ever {
					r.Fail("C14.R2", "a message was dropped as duplicate although its key had never been accepted", "key %s presented at %v..%v, window %v (stalled run)", k, b.inv, b.ret, window)
				}
				continue
			}
			justified := false
			for _, a := range ps {
				if a.accepted && a.invEv < b.retEv && a.ret > b.inv-3*window {
					justified = true
				}
			}
			if !justified {
				sig := "a message was dropped as duplicate although its key had never been accepted"
				for _, a := range ps {
					if a.accepted && a.invEv < b.retEv {
						sig = "a message was dropped as duplicate although its key was last accepted three windows or more earlier"
					}
				}
				r.Fail("C14.R2", sig, "key %s presented at %v..%v, window %v", k, b.inv, b.ret, window)
			}
		}
	}
	// different keys never suppress each other and R4 (hasher laws): with the byte hashers the key is the
	// first 64 bytes of the payload, which is what the harness key stands for; so the rules above already
	// compare presentations that must share a key. Cross-key suppression shows up as an unjustified rejection.
	if hasher == 1 || hasher == 0 {
		r.Probe("payload-variants-beyond-read-limit")
	}
}

func init() {
	Register(&Scenario{
		Prop: "C14", Name: "dedup-window",
		Setup: c14Setup,
		Body:  c14Body,
		Real:  []string{"middleware.Deduplicator (Middleware, PublisherDecorator)", "middleware.NewMapExpiringKeyRepository incl. clean-up ticker goroutine (fake clock)", "middleware message hashers (adler32, sha256, metadata field)"},
		Stubs: []string{"ScriptedPublisher as inner publisher", "harness presenters", "sync.Mutex -> vsync.Mutex"},
	})
}
