package scen

import (
	"context"
	"fmt"
	"strconv"
	"time"

	"github.com/ThreeDotsLabs/watermill/components/fanin"
	"github.com/ThreeDotsLabs/watermill/components/forwarder"
	"github.com/ThreeDotsLabs/watermill/components/requeuer"
	"github.com/ThreeDotsLabs/watermill/message"
	"github.com/ThreeDotsLabs/watermill/pubsub/gochannel"
	"github.com/ThreeDotsLabs/watermill/verifsim/simrt"
)

// C17 — relay components (Forwarder, FanIn, FanOut, Requeuer) neither lose nor invent.

type c17Item struct {
	uuid      string
	payload   string
	meta      map[string]string
	destTopic string
	srcTopic  string
	topicPanics bool // Requeuer: GeneratePublishTopic panics on the first delivery
	kind      int // 0 relayable, 1 malformed JSON, 2 JSON but not an envelope (no destination topic), 3 an envelope followed by more data
	idx       int
}

func c17RandomItem(t *simrt.Tape, i int) *c17Item {
	it := &c17Item{idx: i, meta: map[string]string{}}
	it.uuid = simrt.Pick(t, fmt.Sprintf("uuid-%d", i), fmt.Sprintf("ü/%d \"q\"", i), fmt.Sprintf("%d", i), fmt.Sprintf("\t%d\n", i))
	it.payload = simrt.Pick(t, "plain", "", "{\"json\":true}", "bin\x00\xff\xfe", "ünïcode ✓")
	n := t.Int(4)
	for k := 0; k < n; k++ {
		it.meta[simrt.Pick(t, "key", "k é", "", "trace_id", "x")+fmt.Sprint(k)] = simrt.Pick(t, "v", "", "vä✓", "\"quoted\"", "line\nbreak")
	}
	return it
}

// c17Any as an expected metadata value: the key may hold anything or be absent.
const c17Any = "\x00any"

type c17Dest struct {
	pub     *ScriptedPublisher
	callsOf map[*Delivery][]*PubCall
}

// c17Check evaluates the relay rules for one source delivery.
func c17Check(r *Run, comp string, d *Delivery, it *c17Item, dest *c17Dest, wantTopic string, wantMeta map[string]string, ackWhenCannotUnwrap bool) {
	what := fmt.Sprintf("%s: source delivery %q#%d (item %d kind %d)", comp, d.Msg.UUID, d.Attempt, it.idx, it.kind)
	if !d.Settled() && r.Params["stopped_early"] == 1 {
		// the component was closed / its context cancelled while this message was on its way: it may stay unsettled, never acked
		if len(dest.callsOf[d]) > 0 && dest.callsOf[d][len(dest.callsOf[d])-1].Err == nil {
			r.Probe("accepted-but-unsettled-at-early-stop")
		}
		return
	}
	if !d.Settled() {
		r.Fail("C17.R1", "a consumed message is unsettled at quiescence", "%s", what)
		return
	}
	calls := dest.callsOf[d]
	if it.kind != 0 {
		if len(calls) != 0 {
			r.Fail("C17.R3", "a message that is not a valid forwarder envelope was forwarded", "%s", what)
		}
		if d.Acked() != ackWhenCannotUnwrap {
			r.Fail("C17.R3", "a non-envelope message was not settled as AckWhenCannotUnwrap says", "%s: acked=%v, AckWhenCannotUnwrap=%v", what, d.Acked(), ackWhenCannotUnwrap)
		}
		return
	}
	accepted := 0
	for _, c := range calls {
		if c.Err == nil {
			accepted++
		}
	}
	if d.Acked() && accepted == 0 {
		r.Fail("C17.R1", "a consumed message was acked although the destination never accepted it", "%s: %d destination calls, none accepted", what, len(calls))
	}
	// (while the component is being stopped a Nack after an accepted relay is a legitimate duplicate-to-be)
	if d.Nacked() && accepted > 0 && len(calls) == accepted && r.Params["stopped_early"] == 0 {
		r.Fail("C17.R2", "a consumed message was nacked although the destination accepted it", "%s", what)
	}
	if len(calls) > 0 && calls[len(calls)-1].Err != nil && d.Acked() {
		r.Fail("C17.R2", "a consumed message was acked although the destination failed", "%s", what)
	}
	if accepted > 1 {
		r.Fail("C17.R4", "one consumed delivery was relayed more than once", "%s: %d calls, %d accepted", what, len(calls), accepted)
	}
	for _, c := range calls {
		if c.Topic != wantTopic {
			r.Fail("C17.R1", "a message was relayed to a topic other than the computed destination", "%s: %q, expected %q", what, c.Topic, wantTopic)
		}
		if len(c.Snap) != 1 {
			r.Fail("C17.R4", "a relay call does not carry exactly the consumed message", "%s: %d messages", what, len(c.Snap))
			continue
		}
		m := c.Snap[0]
		if m.UUID != it.uuid || string(m.Payload) != it.payload {
			r.Fail("C17.R1", "the relayed message's UUID or payload differs from the consumed one", "%s: %q %q, expected %q %q", what, m.UUID, m.Payload, it.uuid, it.payload)
		}
		got := message.Metadata{}
		wantCmp := map[string]string{}
		for k, v := range m.Metadata {
			got[k] = v
		}
		for k, v := range wantMeta {
			if v == c17Any {
				delete(got, k)
				continue
			}
			wantCmp[k] = v
		}
		if !sameMeta(wantCmp, got) {
			r.Fail("C17.R1", "the relayed message's metadata differs from the consumed one", "%s: %v, expected %v", what, m.Metadata, wantMeta)
		}
	}
}

// c17EarlyStop: in a third of the runs the component is stopped (Close or context cancel) at a random simulated
// instant while messages are on their way; returns the delay or -1.
func c17EarlyStop(r *Run, max time.Duration) time.Duration {
	if !r.T.Chance(1, 3) {
		return -1
	}
	r.Param("stopped_early", 1)
	return time.Duration(r.T.Int(int(max/time.Millisecond)+1)) * time.Millisecond
}

func c17Faults(t *simrt.Tape, p *ScriptedPublisher) {
	n := t.Skewed(4)
	for i := 0; i < n; i++ {
		p.FailAt[1+t.Int(6)] = simrt.Pick(t, PubErr, PubErr, PubPanic, PubErrCanceled)
	}
}

func c17Body(r *Run) {
	t := r.T
	comp := t.Int(4)
	switch comp {
	case 0:
		c17Forwarder(r)
	case 1:
		c17FanIn(r)
	case 2:
		c17FanOut(r)
	default:
		c17Requeuer(r)
	}
}

func c17Forwarder(r *Run) {
	t := r.T
	fwdTopic := simrt.Pick(t, "", "custom_forwarder_topic")
	ackBad := t.Chance(1, 2)
	n := 1 + t.Skewed(6)
	emptyUUID := t.Chance(1, 4)
	capture := NewScriptedPublisher(r, "outbox")
	fp := forwarder.NewPublisher(capture, forwarder.PublisherConfig{ForwarderTopic: fwdTopic})
	effTopic := fwdTopic
	if effTopic == "" {
		effTopic = "forwarder_topic"
	}
	var items []*c17Item
	src := NewScriptedSubscriber(r, "forwarder-in")
	src.MaxRedeliver = 3
	src.Lanes = 1 + t.Skewed(3)
	byEnvelope := map[string]*c17Item{}
	var pending []struct {
		pos int
		m   *message.Message
	}
	for i := 0; i < n; i++ {
		it := c17RandomItem(t, i)
		it.uuid = fmt.Sprintf("%s#%d", it.uuid, i) // unique, still arbitrary
		if i == 0 && emptyUUID {
			it.uuid = "" // "UUID can be empty": an empty UUID is relayed as it is, not replaced
		}
		switch t.Int(7) {
		case 0:
			it.kind = 1
		case 1:
			it.kind = 2
		case 2:
			it.kind = 3
		}
		it.destTopic = simrt.Pick(t, "orders", "topic with space", "t/ü")
		items = append(items, it)
		var env ScriptMsg
		switch it.kind {
		case 0:
			m := message.NewMessage(it.uuid, []byte(it.payload))
			for k, v := range it.meta {
				m.Metadata.Set(k, v)
			}
			before := len(capture.Calls)
			if err := fp.Publish(it.destTopic, m); err != nil {
				r.Fail("C17.R1", "forwarder.Publisher failed to wrap a valid message", "%v", err)
				return
			}
			c := capture.Calls[len(capture.Calls)-1]
			if len(capture.Calls) != before+1 || c.Topic != effTopic || len(c.Snap) != 1 {
				r.Fail("C17.R1", "forwarder.Publisher did not publish one envelope on the forwarder topic", "topic %q", c.Topic)
				return
			}
			// the outbox keeps the published message object (like a buffering publisher): it is read only after
			// every message has been published, so an envelope must not change once Publish has returned
			pending = append(pending, struct {
				pos int
				m   *message.Message
			}{len(src.Script[effTopic]), c.Msgs[0]})
			env = ScriptMsg{UUID: c.Msgs[0].UUID}
		case 1:
			env = ScriptMsg{UUID: fmt.Sprintf("bad-%d", i), Payload: "{ this is not json"}
		case 3:
			// a complete envelope followed by more data (two envelopes glued together, trailing garbage): not a valid envelope
			m := message.NewMessage(it.uuid, []byte(it.payload))
			if err := fp.Publish(it.destTopic, m); err != nil {
				r.Fail("C17.R1", "forwarder.Publisher failed to wrap a valid message", "%v", err)
				return
			}
			good := string(capture.Calls[len(capture.Calls)-1].Msgs[0].Payload)
			env = ScriptMsg{UUID: fmt.Sprintf("glued-%d", i), Payload: good + simrt.Pick(t, "\n"+good, " trailing garbage", "{}", "\n\n[1]")}
		default:
			env = ScriptMsg{UUID: fmt.Sprintf("noenv-%d", i), Payload: `{"uuid":"x","payload":"eA==","metadata":{}}`}
		}
		byEnvelope[env.UUID] = it
		src.Script[effTopic] = append(src.Script[effTopic], env)
	}
	// half of the runs: some more messages (with different sets of metadata keys) go through the forwarder's Publisher
	// in ONE Publish call
	if t.Chance(1, 2) {
		nb := 2 + t.Int(2)
		batchTopic := simrt.Pick(t, "orders", "topic with space", "t/ü")
		var batch []*message.Message
		var its []*c17Item
		for j := 0; j < nb; j++ {
			it := c17RandomItem(t, n+j)
			it.uuid = fmt.Sprintf("%s#b%d", it.uuid, j)
			it.destTopic = batchTopic
			items = append(items, it)
			its = append(its, it)
			m := message.NewMessage(it.uuid, []byte(it.payload))
			for k, v := range it.meta {
				m.Metadata.Set(k, v)
			}
			batch = append(batch, m)
		}
		before := len(capture.Calls)
		if err := fp.Publish(batchTopic, batch...); err != nil {
			r.Fail("C17.R1", "forwarder.Publisher failed to wrap a valid batch", "%v", err)
			return
		}
		var envs []*message.Message
		for _, c := range capture.Calls[before:] {
			if c.Topic != effTopic {
				r.Fail("C17.R1", "forwarder.Publisher did not publish one envelope on the forwarder topic", "topic %q", c.Topic)
				return
			}
			envs = append(envs, c.Msgs...)
		}
		if len(envs) != nb {
			r.Fail("C17.R1", "forwarder.Publisher did not publish one envelope per message of a batch", "%d envelopes for %d messages", len(envs), nb)
			return
		}
		for j, e := range envs {
			pending = append(pending, struct {
				pos int
				m   *message.Message
			}{len(src.Script[effTopic]), e})
			byEnvelope[e.UUID] = its[j]
			src.Script[effTopic] = append(src.Script[effTopic], ScriptMsg{UUID: e.UUID})
		}
		r.Probe("batch-through-forwarder-publisher")
	}
	for _, pe := range pending {
		src.Script[effTopic][pe.pos].Payload = string(pe.m.Payload)
		src.Script[effTopic][pe.pos].Metadata = copyMeta(pe.m.Metadata)
	}
	dest := &c17Dest{pub: NewScriptedPublisher(r, "destination"), callsOf: map[*Delivery][]*PubCall{}}
	c17Faults(t, dest.pub)
	r.Describe("Forwarder{topic:%q AckWhenCannotUnwrap:%v}: %d messages (kinds %v), destination faults %v, %d in flight", fwdTopic, ackBad, n, kindsOf(items), dest.pub.FailAt, src.Lanes)
	stamping := t.Chance(1, 2)
	dest.pub.Hook = func(c *PubCall) {
		for _, m := range c.Msgs {
			var cur *Delivery
			for _, d := range src.Deliveries {
				if it := byEnvelope[d.Msg.UUID]; it != nil && it.uuid == m.UUID && !d.Settled() {
					cur = d
				}
			}
			if cur == nil {
				r.Fail("C17.R4", "the destination received a message that no unsettled consumed message stands for", "forwarder: %q", m.UUID)
				continue
			}
			dest.callsOf[cur] = append(dest.callsOf[cur], c)
			if stamping {
				// a destination that stamps what it publishes (tracing, a relay marker), as any publisher may: the relayed
				// message is an ordinary message whose metadata can be written (the content was recorded before)
				m.Metadata.Set("stamped-by-destination", "1")
			}
		}
	}
	f, err := forwarder.NewForwarder(src, dest.pub, nopLogger(), forwarder.Config{ForwarderTopic: fwdTopic, AckWhenCannotUnwrap: ackBad})
	if err != nil {
		r.HarnessErr = err.Error()
		return
	}
	r.Sim.AtEnd(func() {
		for _, d := range src.Deliveries {
			it := byEnvelope[d.Msg.UUID]
			c17Check(r, "Forwarder", d, it, dest, it.destTopic, it.meta, ackBad)
		}
		if len(src.Deliveries) == 0 && r.Params["stopped_early"] == 0 {
			r.Fail("C17.R1", "nothing was consumed", "forwarder")
		}
	})
	early := c17EarlyStop(r, 20*time.Millisecond)
	go f.Run(context.Background())
	<-f.Running()
	if early >= 0 {
		time.Sleep(early)
		r.Fault("component-close-in-flight")
		f.Close()
		r.Sim.Quiesce()
		return
	}
	r.Sim.Quiesce()
	f.Close()
}

func kindsOf(items []*c17Item) []int {
	var k []int
	for _, it := range items {
		k = append(k, it.kind)
	}
	return k
}

func c17FanIn(r *Run) {
	t := r.T
	emptyUUID := t.Chance(1, 4)
	nTopics := 1 + t.Skewed(3)
	src := NewScriptedSubscriber(r, "fanin-in")
	src.MaxRedeliver = 3
	src.Lanes = 1 + t.Skewed(3)
	var topics []string
	items := map[string]*c17Item{}
	for i := 0; i < nTopics; i++ {
		tp := fmt.Sprintf("src-%d", i)
		topics = append(topics, tp)
		n := t.Skewed(5)
		for k := 0; k < n; k++ {
			it := c17RandomItem(t, i*10+k)
			it.uuid = fmt.Sprintf("%s#%d.%d", it.uuid, i, k)
			if i == 0 && k == 0 && emptyUUID {
				it.uuid = ""
			}
			it.srcTopic = tp
			items[it.uuid] = it
			src.Script[tp] = append(src.Script[tp], ScriptMsg{UUID: it.uuid, Payload: it.payload, Metadata: it.meta})
		}
	}
	dest := &c17Dest{pub: NewScriptedPublisher(r, "destination"), callsOf: map[*Delivery][]*PubCall{}}
	c17Faults(t, dest.pub)
	r.Describe("FanIn %v -> target: %d messages, destination faults %v", topics, len(items), dest.pub.FailAt)
	dest.pub.Hook = func(c *PubCall) {
		for _, m := range c.Msgs {
			d := src.DeliveryFor(m)
			if d == nil {
				r.Fail("C17.R4", "the destination received a message that was not consumed", "fan-in: %q", m.UUID)
				continue
			}
			if d.Settled() {
				r.Fail("C17.R2", "the consumed message was settled before the destination accepted it", "fan-in: %q", m.UUID)
			}
			dest.callsOf[d] = append(dest.callsOf[d], c)
		}
	}
	f, err := fanin.NewFanIn(src, dest.pub, fanin.Config{SourceTopics: topics, TargetTopic: "target"}, nil)
	if err != nil {
		r.HarnessErr = err.Error()
		return
	}
	r.Sim.AtEnd(func() {
		for _, d := range src.Deliveries {
			it := items[d.Msg.UUID]
			want := copyMeta(it.meta)
			want["x-attempt"] = fmt.Sprint(d.Attempt)
			c17Check(r, "FanIn", d, it, dest, "target", want, false)
		}
	})
	early := c17EarlyStop(r, 20*time.Millisecond)
	go f.Run(context.Background())
	<-f.Running()
	if early >= 0 {
		time.Sleep(early)
		r.Fault("component-close-in-flight")
		f.Close()
		r.Sim.Quiesce()
		return
	}
	r.Sim.Quiesce()
	f.Close()
}

func c17Requeuer(r *Run) {
	t := r.T
	src := NewScriptedSubscriber(r, "requeue-in")
	src.MaxRedeliver = 3
	src.Lanes = 1 + t.Skewed(3)
	n := 1 + t.Skewed(6)
	items := map[string]*c17Item{}
	delay := time.Duration(t.Int(3)) * time.Second
	for i := 0; i < n; i++ {
		it := c17RandomItem(t, i)
		it.uuid = fmt.Sprintf("%s#%d", it.uuid, i)
		it.meta["target"] = simrt.Pick(t, "orders", "payments", "t ü")
		switch t.Int(5) {
		case 0:
			it.meta[requeuer.RetriesKey] = fmt.Sprint(t.Int(100))
		case 1:
			it.meta[requeuer.RetriesKey] = simrt.Pick(t, "not-a-number", "", "1.5", "-3", "007")
		}
		it.topicPanics = t.Chance(1, 5)
		items[it.uuid] = it
		src.Script["poison"] = append(src.Script["poison"], ScriptMsg{UUID: it.uuid, Payload: it.payload, Metadata: it.meta})
	}
	dest := &c17Dest{pub: NewScriptedPublisher(r, "destination"), callsOf: map[*Delivery][]*PubCall{}}
	c17Faults(t, dest.pub)
	r.Describe("Requeuer{delay %v}: %d messages, retries counters %v, destination faults %v", delay, n, func() []string {
		var o []string
		for _, it := range items {
			o = append(o, it.meta[requeuer.RetriesKey])
		}
		return o
	}(), dest.pub.FailAt)
	dest.pub.Hook = func(c *PubCall) {
		for _, m := range c.Msgs {
			d := src.DeliveryFor(m)
			if d == nil {
				r.Fail("C17.R4", "the destination received a message that was not consumed", "requeuer: %q", m.UUID)
				continue
			}
			if d.Settled() {
				r.Fail("C17.R2", "the consumed message was settled before the destination accepted it", "requeuer: %q", m.UUID)
			}
			dest.callsOf[d] = append(dest.callsOf[d], c)
		}
	}
	ctx, cancel := context.WithCancel(context.Background())
	defer cancel()
	rq, err := requeuer.NewRequeuer(requeuer.Config{
		Subscriber: src, SubscribeTopic: "poison", Publisher: dest.pub, Delay: delay,
		GeneratePublishTopic: func(p requeuer.GeneratePublishTopicParams) (string, error) {
			// (the user's callback panics on the first delivery of some messages: that delivery is not to be acked)
			if it := items[p.Message.UUID]; it != nil && it.topicPanics && p.Message.Metadata.Get("x-attempt") == "0" {
				r.Fault("topic-callback-panic")
				panic("scripted panic in GeneratePublishTopic")
			}
			return "requeue." + p.Message.Metadata.Get("target"), nil
		},
	}, nopLogger())
	if err != nil {
		r.HarnessErr = err.Error()
		return
	}
	r.Sim.AtEnd(func() {
		for _, d := range src.Deliveries {
			it := items[d.Msg.UUID]
			want := copyMeta(it.meta)
			want["x-attempt"] = fmt.Sprint(d.Attempt)
			// a counter that is a non-negative number (or absent: zero) goes up by exactly one; what becomes of anything else
			// is not specified
			old, perr := strconv.Atoi(it.meta[requeuer.RetriesKey])
			switch {
			case it.meta[requeuer.RetriesKey] == "":
				want[requeuer.RetriesKey] = "1"
			case perr != nil || old < 0:
				want[requeuer.RetriesKey] = c17Any
			default:
				want[requeuer.RetriesKey] = strconv.Itoa(old + 1)
			}
			c17Check(r, "Requeuer", d, it, dest, "requeue."+it.meta["target"], want, false)
		}
	})
	early := c17EarlyStop(r, delay+20*time.Millisecond)
	go rq.Run(ctx)
	if early >= 0 {
		time.Sleep(early)
		r.Fault("context-cancel-in-flight")
		cancel()
		r.Sim.Quiesce()
		return
	}
	r.Sim.Quiesce()
	cancel()
}

func c17FanOut(r *Run) {
	t := r.T
	emptyUUID := t.Chance(1, 4)
	src := NewScriptedSubscriber(r, "fanout-in")
	src.MaxRedeliver = 2
	nTopics := 1 + t.Skewed(3)
	items := map[string]*c17Item{}
	var topics []string
	for i := 0; i < nTopics; i++ {
		tp := fmt.Sprintf("topic-%d", i)
		topics = append(topics, tp)
		n := t.Skewed(5)
		for k := 0; k < n; k++ {
			it := c17RandomItem(t, i*10+k)
			it.uuid = fmt.Sprintf("%s#%d.%d", it.uuid, i, k)
			if i == 0 && k == 0 && emptyUUID {
				it.uuid = ""
			}
			it.srcTopic = tp
			items[it.uuid] = it
			src.Script[tp] = append(src.Script[tp], ScriptMsg{UUID: it.uuid, Payload: it.payload, Metadata: it.meta})
		}
	}
	fo, err := gochannel.NewFanOut(src, nil)
	if err != nil {
		r.HarnessErr = err.Error()
		return
	}
	// (library calls that could block run in a goroutine of their own: a hang then shows at the end instead of silently
	// ending the run)
	added := false
	again := make([]bool, len(topics))
	for i := range topics {
		again[i] = t.Chance(1, 3)
	}
	addDone := make(chan struct{})
	go func() {
		for i, tp := range topics {
			fo.AddSubscription(tp)
			if again[i] {
				fo.AddSubscription(tp) // idempotent
			}
		}
		added = true
		close(addDone)
	}()
	r.Sim.AtEnd(func() {
		if !added {
			r.Fail("C17.R1", "FanOut.AddSubscription never returned", "topics %v", topics)
		}
	})
	<-addDone
	type consumer struct {
		topic string
		got   []*message.Message
	}
	var consumers []*consumer
	ctx, cancel := context.WithCancel(context.Background())
	defer cancel()
	for _, tp := range topics {
		n := 1 + t.Int(3)
		for i := 0; i < n; i++ {
			c := &consumer{topic: tp}
			consumers = append(consumers, c)
			ch, serr := fo.Subscribe(ctx, tp)
			if serr != nil {
				r.HarnessErr = serr.Error()
				return
			}
			go func() {
				for m := range ch {
					c.got = append(c.got, SnapMsg(m))
					m.Ack()
				}
			}()
		}
	}
	r.Describe("FanOut over %v with %d internal subscribers, %d messages", topics, len(consumers), len(items))
	r.Sim.AtEnd(func() {
		for _, d := range src.Deliveries {
			it := items[d.Msg.UUID]
			what := fmt.Sprintf("FanOut: source delivery %q#%d", d.Msg.UUID, d.Attempt)
			if !d.Settled() {
				r.Fail("C17.R1", "a consumed message is unsettled at quiescence", "%s", what)
				continue
			}
			if !d.Acked() {
				continue
			}
			want := copyMeta(it.meta)
			want["x-attempt"] = fmt.Sprint(d.Attempt)
			for _, c := range consumers {
				if c.topic != it.srcTopic {
					continue
				}
				found := false
				for _, m := range c.got {
					if m.UUID == it.uuid && string(m.Payload) == it.payload && sameMeta(want, m.Metadata) {
						found = true
					}
				}
				if !found {
					r.Fail("C17.R1", "an acked message did not reach a fan-out subscriber intact", "%s: consumer on %s has %d messages", what, c.topic, len(c.got))
				}
			}
		}
		for _, c := range consumers {
			for _, m := range c.got {
				it := items[m.UUID]
				if it == nil || it.srcTopic != c.topic {
					r.Fail("C17.R4", "a fan-out subscriber received a message that was not consumed on its topic", "%q on %s", m.UUID, c.topic)
				}
			}
		}
	})
	go fo.Run(context.Background())
	<-fo.Running()
	r.Sim.Quiesce()
	cancel()
	fo.Close()
}

func init() {
	Register(&Scenario{
		Prop: "C17", Name: "relays",
		Setup: func(r *Run) simrt.Config {
			c := BaseConfig()
			c.Horizon = 10 * time.Minute
			MaybeFine(r, &c, "watermill/message.", 1, 4)
			return c
		},
		Body:  c17Body,
		Real:  []string{"components/forwarder (Forwarder, Publisher, envelope)", "components/fanin", "pubsub/gochannel.FanOut + internal GoChannel", "components/requeuer", "message.Router"},
		Stubs: []string{"ScriptedSubscriber as source (redelivery)", "ScriptedPublisher as destination with failure script"},
	})
}
