package scen

import (
	stderrors "errors"
	"fmt"
	"strings"
	"time"

	"github.com/pkg/errors"

	"github.com/ThreeDotsLabs/watermill/message"
	"github.com/ThreeDotsLabs/watermill/message/router/middleware"
	"github.com/ThreeDotsLabs/watermill/pubsub/gochannel"
	"github.com/ThreeDotsLabs/watermill/verifsim/simrt"
)

// C13 — Poison queue: a failed message is either in the poison topic or still failing.

var errC13Sentinel = stderrors.New("sentinel failure")
var errC13Other = stderrors.New("other failure")

const (
	c13Success = iota
	c13SuccessOuts
	c13ErrPlain
	c13ErrWrapped
	c13ErrWithOuts
	c13ErrOther
	c13ErrTransient
	c13ErrMultiline
	c13Results
)

// transientErr is a wrapper type with a Cause() method, as applications use to classify errors.
type transientErr struct{ cause error }

func (e transientErr) Error() string { return "transient: " + e.cause.Error() }
func (e transientErr) Cause() error  { return e.cause }
func (e transientErr) Unwrap() error { return e.cause }

var c13ResultNames = [...]string{"success", "success+outputs", "sentinel error", "wrapped sentinel error", "sentinel error + outputs", "other error", "transient wrapper around sentinel", "error with a multi-line text (an aggregate of two errors)"}

const (
	c13FilterAll = iota
	c13FilterSentinel
	c13FilterNone
	c13FilterOuterPrefix  // decides on the outer error's text
	c13FilterNotTransient // decides on the outer error's type
	c13FilterAlternating  // stateful: accepts on every odd call (a rate limiter, a "not shutting down" flag, ...)
	c13Filters
)

var c13FilterNames = [...]string{"PoisonQueue (all errors)", "filter: errors.Is sentinel", "filter: nothing", "filter: outer message starts with 'while handling'", "filter: everything except the transient wrapper type", "filter: stateful, accepts every odd call"}

func c13Result(kind int, m *message.Message) ([]*message.Message, error) {
	outs := []*message.Message{message.NewMessage(m.UUID+">out", []byte("o"))}
	switch kind {
	case c13Success:
		return nil, nil
	case c13SuccessOuts:
		return outs, nil
	case c13ErrPlain:
		return nil, errC13Sentinel
	case c13ErrWrapped:
		return nil, errors.Wrap(errC13Sentinel, "while handling")
	case c13ErrWithOuts:
		return outs, errC13Sentinel
	case c13ErrTransient:
		return nil, transientErr{errC13Sentinel}
	case c13ErrMultiline:
		return nil, fmt.Errorf("2 errors occurred:\n\t* %w\n\t* inventory service said: out of stock\n", errC13Sentinel)
	default:
		return nil, errC13Other
	}
}

func c13Accepts(filter int, err error) bool {
	switch filter {
	case c13FilterAll:
		return true
	case c13FilterSentinel:
		return stderrors.Is(err, errC13Sentinel)
	case c13FilterOuterPrefix:
		return strings.HasPrefix(err.Error(), "while handling")
	case c13FilterNotTransient:
		_, isTransient := err.(transientErr)
		return !isTransient
	}
	return false
}

func c13Body(r *Run) {
	t := r.T
	cell := t.Int(c13Results * c13Filters * 3 * 3)
	kind := cell % c13Results
	filter := (cell / c13Results) % c13Filters
	pubFail := (cell / (c13Results * c13Filters)) % 3 // 0 accept, 1 first call fails, 2 first two calls fail
	mode := (cell / (c13Results * c13Filters * 3)) % 3 // 0 stand-alone, 1 router+scripted, 2 router+gochannel
	r.Describe("handler result: %s; %s; poison publisher fails first %d call(s); mode %d (0 stand-alone, 1 Router+scripted subscriber, 2 Router+GoChannel)", c13ResultNames[kind], c13FilterNames[filter], pubFail, mode)

	poison := NewScriptedPublisher(r, "poison-pub")
	for i := 1; i <= pubFail; i++ {
		poison.FailAt[i] = PubErr
	}
	if pubFail > 0 && t.Chance(1, 3) {
		// the poison publisher does not return an error, it panics (with a string): still a failed publish, the message
		// must not be reported as handled — the panic may pass on or come back as an error
		for i := 1; i <= pubFail; i++ {
			poison.FailAt[i] = PubPanic
		}
		r.Describe("the failing poison publish calls panic instead of returning an error")
	}
	var mw message.HandlerMiddleware
	var err error
	filterCalls := 0
	var verdicts []bool // every answer the filter gave, in order
	if filter == c13FilterAll {
		mw, err = middleware.PoisonQueue(poison, "poison")
	} else {
		mw, err = middleware.PoisonQueueWithFilter(poison, "poison", func(e error) bool {
			filterCalls++
			v := c13Accepts(filter, e)
			if filter == c13FilterAlternating {
				v = filterCalls%2 == 1
			}
			verdicts = append(verdicts, v)
			return v
		})
	}
	if err != nil {
		r.HarnessErr = "PoisonQueue: " + err.Error()
		return
	}
	type inv struct {
		msg      *message.Message
		metaIn   map[string]string
		outs     []*message.Message
		err      error
		callsBefore int
		subName     string
		verdictFrom int // index into verdicts of the first answer given after this invocation of the handler
		verdictTo   int // ... and one past the last, taken when the wrapped call returned
	}
	var invs []*inv
	seen := map[string]int{}
	handler := func(m *message.Message) ([]*message.Message, error) {
		iv := &inv{msg: m, metaIn: copyMeta(m.Metadata), callsBefore: len(poison.Calls), subName: message.SubscriberNameFromCtx(m.Context()), verdictFrom: len(verdicts), verdictTo: -1}
		seen[m.UUID]++
		k := kind
		if seen[m.UUID] > 4 {
			k = c13Success // the fault stops: a broker that redelivers for ever must come to rest
		}
		iv.outs, iv.err = c13Result(k, m)
		if iv.err != nil {
			r.Fault("handler-error")
		}
		invs = append(invs, iv)
		return iv.outs, iv.err
	}
	wrapped := mw(handler)

	inRouter := false // inside a Router the context names topic, handler and subscriber (possibly with an empty name)
	// checks one invocation of the wrapped chain
	checkInv := func(iv *inv, outs []*message.Message, rerr error, wantTopic, wantHandler, wantSub string, newCalls []*PubCall) {
		what := fmt.Sprintf("%s / %s / %s", c13ResultNames[kind], c13FilterNames[filter], iv.msg.UUID)
		accepted := iv.err != nil && c13Accepts(filter, iv.err)
		if filter == c13FilterAlternating && iv.err != nil {
			// a stateful filter: what counts is what it answered for this invocation. Asked once (or consistently), that
			// answer decides; asked several times with different answers, either reading is fine as long as the message
			// is not lost (neither in the poison topic nor failing any more).
			to := iv.verdictTo
			if to < 0 {
				to = len(verdicts)
			}
			vs := verdicts[iv.verdictFrom:to]
			yes, no := 0, 0
			for _, v := range vs {
				if v {
					yes++
				} else {
					no++
				}
			}
			switch {
			case yes > 0 && no == 0:
				accepted = true
			case yes == 0 && no > 0:
				accepted = false
			default:
				r.Probe("filter-gave-mixed-answers-for-one-invocation")
				inTopic := false
				for _, c := range newCalls {
					if c.Err == nil {
						inTopic = true
					}
				}
				if !inTopic && rerr == nil {
					r.Fail("C13.R2", "success reported although the failed message is not in the poison topic", "%s: filter answers %v", what, vs)
				}
				return
			}
		}
		if !accepted {
			if len(newCalls) != 0 {
				r.Fail("C13.R3", "a message was published to the poison topic although handling succeeded or the error is filtered out", "%s: %d poison publishes", what, len(newCalls))
			}
			if rerr != iv.err {
				r.Fail("C13.R3", "PoisonQueue changed the result of a successful or filtered-out invocation", "%s: returned %v, handler returned %v", what, rerr, iv.err)
			}
			if len(outs) != len(iv.outs) {
				r.Fail("C13.R3", "PoisonQueue changed the outputs of a successful or filtered-out invocation", "%s", what)
			}
			return
		}
		// "published exactly once": present once in the poison topic — calls that the publisher rejected put nothing there
		var acceptedCalls []*PubCall
		for _, c := range newCalls {
			if c.Err == nil {
				acceptedCalls = append(acceptedCalls, c)
			}
		}
		if len(newCalls) == 0 || len(acceptedCalls) > 1 {
			r.Fail("C13.R1", "a failed message was not published exactly once to the poison topic", "%s: %d poison publish calls, %d accepted", what, len(newCalls), len(acceptedCalls))
			return
		}
		for _, c := range newCalls {
			if c.Topic != "poison" || len(c.Snap) != 1 {
				r.Fail("C13.R1", "poison publish on a wrong topic or with a wrong number of messages", "%s: topic %q, %d messages", what, c.Topic, len(c.Snap))
				return
			}
			pm := c.Snap[0]
			if pm.UUID != iv.msg.UUID || string(pm.Payload) != string(iv.msg.Payload) {
				r.Fail("C13.R1", "the poison message does not carry the UUID and payload of the failed message", "%s: %s %q", what, pm.UUID, pm.Payload)
			}
			if got := pm.Metadata.Get(middleware.ReasonForPoisonedKey); !strings.Contains(got, iv.err.Error()) {
				r.Fail("C13.R1", "poison metadata does not name the reason, topic, handler and subscriber", "%s: %s=%q, expected %q", what, middleware.ReasonForPoisonedKey, got, iv.err.Error())
			}
			// topic, handler and subscriber: as the router's context names them; outside a router there is nothing to name
			// (what then happens to such keys already present on the message is not specified)
			want := map[string]string{
				middleware.ReasonForPoisonedKey:  "",
				middleware.PoisonedTopicKey:      wantTopic,
				middleware.PoisonedHandlerKey:    wantHandler,
				middleware.PoisonedSubscriberKey: wantSub,
			}
			for k, v := range want {
				if k == middleware.ReasonForPoisonedKey || (v == "" && !inRouter) {
					continue
				}
				if pm.Metadata.Get(k) != v {
					r.Fail("C13.R1", "poison metadata does not name the reason, topic, handler and subscriber", "%s: %s=%q, expected %q", what, k, pm.Metadata.Get(k), v)
				}
			}
			for k, v := range iv.metaIn {
				if _, special := want[k]; special {
					continue
				}
				if pm.Metadata.Get(k) != v {
					r.Fail("C13.R1", "the poison message lost original metadata", "%s: %s=%q, original %q", what, k, pm.Metadata.Get(k), v)
				}
			}
		}
		if len(acceptedCalls) == 1 {
			if rerr != nil {
				r.Fail("C13.R1", "the error was not cleared although the poison publish succeeded", "%s: %v", what, rerr)
			}
		} else {
			r.Probe("poison-publish-failed")
			if rerr == nil {
				r.Fail("C13.R2", "success reported although publishing to the poison topic failed", "%s", what)
			} else if !stderrors.Is(rerr, iv.err) && !strings.Contains(rerr.Error(), iv.err.Error()) {
				r.Fail("C13.R2", "the handler's error was lost when the poison publish failed", "%s: %v", what, rerr)
			}
		}
	}

	// UUIDs are "only used for debugging": different messages may share one (a requeued message that fails again, a
	// producer that reuses ids) and it may be empty
	uuidMode := t.Int(4) // 0, 1 distinct; 2 all the same; 3 the first one is empty
	uuidOf := func(prefix string, i int) string {
		switch {
		case uuidMode == 2:
			return prefix + "same"
		case uuidMode == 3 && i == 0:
			return ""
		}
		return fmt.Sprintf("%s%d", prefix, i)
	}
	if mode == 0 {
		// stand-alone, presented up to three times like a redelivering broker would
		for attempt := 0; attempt < 3; attempt++ {
			m := message.NewMessage(uuidOf("sa-", attempt), []byte("payload"))
			m.Metadata.Set("user-key", "user-value")
			if t.Chance(1, 2) {
				m.Metadata.Set(middleware.ReasonForPoisonedKey, "stale reason")
				m.Metadata.Set(middleware.PoisonedTopicKey, "stale topic")
			}
			before := len(poison.Calls)
			nInv := len(invs)
			var outs []*message.Message
			var rerr error
			pv, pan := Call(func() { outs, rerr = wrapped(m) })
			if pan {
				if n := len(poison.Calls); n > before && poison.Calls[n-1].Fault == PubPanic {
					r.Probe("poison-publisher-panic-passed-on")
					continue
				}
				r.Fail("C13.R0", "PoisonQueue panicked", "%v", pv)
				return
			}
			if len(invs) != nInv+1 {
				r.Fail("C13.R0", "the wrapped handler was not invoked exactly once", "%d", len(invs)-nInv)
				return
			}
			invs[nInv].verdictTo = len(verdicts)
			checkInv(invs[nInv], outs, rerr, "", "", "", poison.Calls[before:])
		}
		return
	}

	// inside a running Router. The handler may have the empty name, may consume the poison topic itself (a "second chance"
	// processor), and the scripted messages may carry poison keys from an earlier trip.
	hname, inTopic := "the-handler", "in"
	if t.Chance(1, 4) {
		hname = ""
	}
	if t.Chance(1, 5) {
		inTopic = "poison"
	}
	stale := t.Chance(1, 2)
	inRouter = true
	rig := newRouterRig(r, 30*time.Second)
	closeInFlight := false
	var sub message.Subscriber
	var script *ScriptedSubscriber
	var ps *gochannel.GoChannel
	subName := "scen.ScriptedSubscriber"
	if mode == 1 {
		script = NewScriptedSubscriber(r, "sub")
		script.MaxRedeliver = 4
		for i := 0; i < 2; i++ {
			md := map[string]string{"user-key": "user-value"}
			if stale {
				// the message has been through a poison queue before (requeued from the poison topic, say)
				md[middleware.ReasonForPoisonedKey] = "stale reason"
				md[middleware.PoisonedTopicKey] = "stale topic"
				md[middleware.PoisonedHandlerKey] = "stale handler"
				md[middleware.PoisonedSubscriberKey] = "stale subscriber"
			}
			script.Script[inTopic] = append(script.Script[inTopic], ScriptMsg{UUID: uuidOf("r-", i), Payload: "payload", Metadata: md})
		}
		sub = script
	} else {
		ps = gochannel.NewGoChannel(gochannel.Config{}, nil)
		sub = ps
		subName = "gochannel.GoChannel"
	}
	outPub := NewScriptedPublisher(r, "out-pub")
	type routed struct {
		iv    *inv
		outs  []*message.Message
		err   error
		calls []*PubCall
		hname string
		topic string
	}
	var results []*routed
	// the observation point outside PoisonQueue. One PoisonQueue value serves every handler it is added to.
	observe := func(hname, topic string) message.HandlerMiddleware {
		return func(next message.HandlerFunc) message.HandlerFunc {
			var mine *inv
			pq := mw(func(m *message.Message) ([]*message.Message, error) {
				o, e := next(m)
				mine = invs[len(invs)-1]
				return o, e
			})
			return func(m *message.Message) ([]*message.Message, error) {
				before := len(poison.Calls)
				mine = nil
				outs, e := pq(m)
				res := &routed{outs: outs, err: e, hname: hname, topic: topic}
				// (with a second handler the poison publisher is shared: the calls of this invocation are those carrying its message)
				for _, c := range poison.Calls[before:] {
					if len(c.Snap) > 0 && c.Snap[0].UUID == m.UUID {
						res.calls = append(res.calls, c)
					}
				}
				if mine != nil {
					res.iv = mine
					mine.verdictTo = len(verdicts)
				}
				results = append(results, res)
				return outs, e
			}
		}
	}
	h := rig.Router.AddHandler(hname, inTopic, sub, "out", outPub, handler)
	h.AddMiddleware(observe(hname, inTopic))
	// in half of the scripted-subscriber runs a second handler (other name, topic and subscriber) uses the same PoisonQueue
	var script2 *ScriptedSubscriber
	if mode == 1 && filter != c13FilterAlternating && t.Chance(1, 2) {
		script2 = NewScriptedSubscriber(r, "sub2")
		script2.MaxRedeliver = 4
		for i := 0; i < 2; i++ {
			script2.Script["in2"] = append(script2.Script["in2"], ScriptMsg{UUID: fmt.Sprintf("r2-%d", i), Payload: "payload", Metadata: map[string]string{"user-key": "user-value"}})
		}
		h2 := rig.Router.AddHandler("second-handler", "in2", script2, "out", outPub, handler)
		h2.AddMiddleware(observe("second-handler", "in2"))
		r.Probe("two-handlers-share-one-poison-queue")
	}
	r.Sim.AtEnd(func() {
		for _, res := range results {
			if res.iv == nil {
				r.Fail("C13.R0", "the wrapped handler was not invoked exactly once", "")
				continue
			}
			// (the subscriber is named as the router's context names it: C08 checks that naming)
			_ = subName
			checkInv(res.iv, res.outs, res.err, res.topic, res.hname, res.iv.subName, res.calls)
		}
		if script != nil {
			// R4: acked => handled successfully or present in the poison topic
			for _, d := range script.Deliveries {
				if !d.Settled() {
					if !closeInFlight {
						r.Fail("C13.R4", "a message is unsettled at quiescence", "%s", d.Msg.UUID)
					}
					continue
				}
				var res *routed
				for _, x := range results {
					if x.iv != nil && x.iv.msg == d.Msg {
						res = x
					}
				}
				if res == nil {
					continue
				}
				inPoison := false
				for _, c := range poison.Accepted() {
					for _, m := range c.Snap {
						if m.UUID == d.Msg.UUID {
							inPoison = true
						}
					}
				}
				if d.Acked() && res.iv.err != nil && !inPoison {
					r.Fail("C13.R4", "a message whose handler failed was acked although it is not in the poison topic", "%s", d.Msg.UUID)
				}
				accepted := res.iv.err != nil && c13Accepts(filter, res.iv.err)
				if d.Nacked() && accepted && len(res.calls) == 1 && res.calls[0].Err == nil {
					r.Fail("C13.R4", "a message was nacked although it had been moved to the poison topic", "%s", d.Msg.UUID)
				}
			}
		}
		if len(results) == 0 && !closeInFlight {
			r.Fail("C13.R0", "no message was handled", "")
		}
	})
	// a third of the scripted-subscriber runs: the poison publisher is slow and the Router is closed while a poison
	// publish may be in flight; whatever was accepted by the poison topic must still count as poisoned (acked), not failed
	if mode == 1 && t.Chance(1, 3) {
		closeInFlight = true
		poison.Hook = func(c *PubCall) { time.Sleep(30 * time.Millisecond) }
		closeAfter := time.Duration(t.Int(70)) * time.Millisecond
		go func() {
			<-rig.Router.Running()
			time.Sleep(closeAfter)
			r.Fault("router-close-in-flight")
			rig.Router.Close()
		}()
	}
	rig.Start()
	if ps != nil {
		for i := 0; i < 2; i++ {
			m := message.NewMessage(fmt.Sprintf("g-%d", i), []byte("payload"))
			m.Metadata.Set("user-key", "user-value")
			ps.Publish(inTopic, m)
		}
	}
	// bounded: errors that are not moved to the poison queue would be redelivered for ever by GoChannel
	r.Sim.Quiesce()
	rig.Router.Close()
}

func init() {
	Register(&Scenario{
		Prop: "C13", Name: "poison-matrix",
		Setup: func(r *Run) simrt.Config {
			c := BaseConfig()
			c.Horizon = 10 * time.Minute
			c.StepCap = 30000
			return c
		},
		Body: c13Body,
		Prefixes: func(tier string) [][]uint32 {
			var out [][]uint32
			for c := 0; c < c13Results*c13Filters*3*3; c++ {
				out = append(out, []uint32{uint32(c)})
			}
			return out
		},
		Real:  []string{"middleware.PoisonQueue / PoisonQueueWithFilter", "message.Router (modes 1,2)", "pubsub/gochannel.GoChannel (mode 2)"},
		Stubs: []string{"ScriptedPublisher as poison publisher", "ScriptedSubscriber (mode 1)", "scripted handler results"},
	})
}
