package scen

import (
	"context"
	"fmt"
	"strings"
	"time"

	"github.com/ThreeDotsLabs/watermill/message"
	"github.com/ThreeDotsLabs/watermill/pubsub/gochannel"
	"github.com/ThreeDotsLabs/watermill/verifsim/simrt"
)

// C10 — Router lifecycle: Running, RunHandlers, Stop and self-close behave as documented.

type c10H struct {
	name, topic   string
	h             *message.Handler
	late          bool
	sharedOut     bool
	pub           *ScriptedPublisher
	handled       map[string]int
	stopMode      int // 0 never, 1 immediately when Started() closes, 2 later
	stopCalled    bool
	stoppedClosed bool
	startedSeen   bool
}

func c10Body(r *Run) {
	t := r.T
	nH := 1 + t.Skewed(5)
	nLate := t.Skewed(3)
	// a quarter of the runs: every handler is stopped the moment it has started; the router must close itself
	earlyAll := t.Chance(1, 4)
	if earlyAll {
		nLate = 0
	}
	// extra RunHandlers callers that overlap with the calls starting the late handlers
	racers := t.Skewed(3)
	// a sixth of the runs: the Run context is cancelled somewhere inside the start-up window; Run must still return nil
	startupCancel := -1
	if !earlyAll && t.Chance(1, 6) {
		startupCancel = t.Int(40)
		nLate = 0
	}
	ending := t.Int(3)    // 0 Close, 1 cancel Run context, 2 stop every handler
	secondRun := t.Int(4) // 0 none, 1 while running, 2 after the router closed, 3 while the first Run is still loading its plugin
	// a fifth of the runs: a handler invocation that outlives CloseTimeout (1 s here) is in flight when the end comes:
	// the close then times out, and Run still has to return
	slowAtEnd := !earlyAll && startupCancel < 0 && t.Chance(1, 5)
	extraRunHandlers := t.Skewed(4)
	psIn := gochannel.NewGoChannel(gochannel.Config{OutputChannelBuffer: int64(simrt.Pick(t, 0, 1, 3))}, nil)
	counting := NewCountingSubscriber(psIn)
	psOut := gochannel.NewGoChannel(gochannel.Config{}, nil)
	closeTimeout := 30 * time.Second
	if slowAtEnd {
		closeTimeout = time.Second
	}
	rig := newRouterRig(r, closeTimeout)
	inPlugin := make(chan struct{})
	if secondRun == 3 {
		rig.Router.AddPlugin(func(*message.Router) error {
			close(inPlugin)
			for k := 0; k < 6; k++ {
				simrt.Yield()
			}
			return nil
		})
	}
	var hs []*c10H
	for i := 0; i < nH+nLate; i++ {
		h := &c10H{name: fmt.Sprintf("h%d", i), topic: fmt.Sprintf("t%d", i), late: i >= nH, handled: map[string]int{}}
		h.sharedOut = t.Chance(1, 4)
		h.stopMode = simrt.Pick(t, 0, 0, 1, 2)
		if earlyAll {
			h.stopMode = 1
		}
		if i == 0 && h.stopMode == 1 && !earlyAll {
			// one registered handler keeps running until phase 2: handlers are not added while the router shuts itself down
			h.stopMode = 2
		}
		h.pub = NewScriptedPublisher(r, h.name+"-pub")
		hs = append(hs, h)
		r.Describe("%s late=%v publisherSharedGoChannel=%v stopMode=%d", h.name, h.late, h.sharedOut, h.stopMode)
	}
	r.Describe("ending=%d (0 Close, 1 cancel ctx, 2 stop all) secondRun=%d extraRunHandlers=%d stopEveryHandlerAtOnce=%v", ending, secondRun, extraRunHandlers, earlyAll)

	add := func(h *c10H) {
		var pub message.Publisher = h.pub
		if h.sharedOut {
			pub = psOut
		}
		h.h = rig.Router.AddHandler(h.name, h.topic, counting, "out", pub, func(m *message.Message) ([]*message.Message, error) {
			h.handled[m.UUID]++
			r.Logf("%s handled %s", h.name, m.UUID)
			if strings.HasPrefix(m.UUID, "slow-") {
				r.Fault("handler-outlives-close-timeout")
				time.Sleep(5 * time.Second)
			}
			if h.sharedOut && h.handled[m.UUID] > 3 {
				// its shared publisher was closed by another handler's Stop: stop producing, so that redelivery ends
				return nil, nil
			}
			return []*message.Message{message.NewMessage(m.UUID+">o", []byte("o"))}, nil
		})
		hh := h
		go func() {
			<-hh.h.Started()
			hh.startedSeen = true
			r.Logf("%s: Started() observed closed", hh.name)
			if hh.stopMode == 1 {
				hh.stopCalled = true
				r.Fault("handler-stop")
				if pv, pan := Call(hh.h.Stop); pan {
					r.Fail("C10.R3", "Handler.Stop panicked although Started() was already closed", "%s: %v", hh.name, pv)
					return
				}
			}
			ch := hh.h.Stopped()
			if ch == nil {
				r.Fail("C10.R3", "Handler.Stopped() returned a nil channel although Started() was already closed", "%s", hh.name)
				return
			}
			<-ch
			hh.stoppedClosed = true
			r.Logf("%s: Stopped() closed", hh.name)
		}()
	}
	publish := func(h *c10H, uuid string) bool {
		err := psIn.Publish(h.topic, message.NewMessage(uuid, []byte("x")))
		r.Logf("published %s to %s: %v", uuid, h.topic, err)
		return err == nil
	}
	type expect struct {
		h    *c10H
		uuid string
		rule string
		sig  string
	}
	var expects []expect
	stoppedSharing := func() bool {
		for _, h := range hs {
			if h.stopCalled && h.sharedOut {
				return true
			}
		}
		return false
	}

	for _, h := range hs {
		if !h.late {
			add(h)
		}
	}
	secondRunCheck := func(when string) {
		ctx, cancel := context.WithCancel(context.Background())
		defer cancel()
		var err error
		pv, pan := Call(func() { err = rig.Router.Run(ctx) })
		if pan {
			r.Fail("C10.R6", "a second Run panicked", "%s: %v", when, pv)
		} else if err == nil {
			r.Fail("C10.R6", "a second Run returned nil", "%s", when)
		}
		r.Probe("second-run-rejected")
	}

	r.Sim.AtEnd(func() {
		for _, h := range hs {
			if n := counting.Invoked[h.topic]; n != 1 {
				r.Fail("C10.R2", "a handler's subscriber was not subscribed exactly once", "%s: Subscribe called %d times", h.name, n)
			}
			for u, n := range h.handled {
				if n != 1 && !h.sharedOut {
					r.Fail("C10.R2", "a message was handled more than once by one handler", "%s %s x%d", h.name, u, n)
				}
			}
			if !h.stoppedClosed {
				r.Fail("C10.R3", "Stopped() of a handler never closed although the handler was stopped or the router closed", "%s startedSeen=%v stopCalled=%v", h.name, h.startedSeen, h.stopCalled)
			}
		}
		for _, e := range expects {
			if e.h.handled[e.uuid] == 0 {
				r.Fail(e.rule, e.sig, "%s never handled %s", e.h.name, e.uuid)
			}
		}
		if !rig.RunReturned {
			r.Fail("C10.R5", "Run did not return after the router was closed, its context cancelled or all handlers stopped", "ending=%d", ending)
		} else if rig.RunErr != nil || rig.RunPanic != nil {
			r.Fail("C10.R5", "Run returned an error", "%v %v", rig.RunErr, rig.RunPanic)
		}
	})

	for i := 0; i < racers; i++ {
		go func() {
			// (RunHandlers is documented for handlers added after Run: the racers wait until the router runs, then
			// overlap with each other and with the calls that start the late handlers)
			<-rig.Router.Running()
			for k := 0; k < 6; k++ {
				if err := rig.Router.RunHandlers(rig.ctx); err == nil {
					r.Probe("racing-runhandlers-call-succeeded")
				}
				simrt.Yield()
			}
		}()
	}
	if startupCancel >= 0 {
		r.Fault("run-context-cancel-during-startup")
		go func() {
			for k := 0; k < startupCancel; k++ {
				simrt.Yield()
			}
			rig.cancel()
		}()
		rig.StartAsync()
		r.Sim.Quiesce()
		// only the lifecycle outcome is demanded in this mode (AtEnd: Run returned nil, Subscribe once, Stopped() closed)
		for _, h := range hs {
			if !h.startedSeen {
				h.stoppedClosed = true // never started: nothing to stop
				counting.Invoked[h.topic] = 1
			}
		}
		return
	}
	anyFailFirst := false // some late handler's first Subscribe fails: whichever RunHandlers call meets it reports it
	rig.StartAsync()
	if secondRun == 3 {
		go func() {
			<-inPlugin
			secondRunCheck("while the first Run is loading its plugin")
		}()
	}
	if secondRun == 1 {
		go func() {
			<-rig.Router.Running()
			secondRunCheck("while running")
		}()
	}
	<-rig.Router.Running()
	r.Logf("Running() observed closed")
	for _, h := range hs {
		if h.late {
			continue
		}
		if counting.Returned[h.topic] != 1 {
			r.Fail("C10.R1", "Running() was closed before every registered handler held its subscription", "%s: %d returned Subscribe calls", h.name, counting.Returned[h.topic])
		}
		if h.stopMode != 1 {
			u := "at-running-" + h.name
			if publish(h, u) && !stoppedSharing() && !h.sharedOut {
				expects = append(expects, expect{h, u, "C10.R1", "a message published right after Running() closed was not delivered to a registered handler"})
			}
		}
	}
	for i := 0; i < extraRunHandlers; i++ {
		go func() {
			// (by then the router may have closed itself; what RunHandlers says on a closed router is not specified)
			if err := rig.Router.RunHandlers(rig.ctx); err != nil && !rig.Router.IsClosed() && !(anyFailFirst && strings.Contains(err.Error(), "scripted subscribe error")) {
				r.Fail("C10.R2", "RunHandlers on a running router failed", "%v", err)
			}
		}()
	}
	for _, h := range hs {
		if !h.late {
			continue
		}
		// a third of the late handlers: their first Subscribe fails (a transient error); RunHandlers reports it and a
		// later call starts the handler after all
		failFirst := t.Chance(1, 3)
		if failFirst {
			anyFailFirst = true
			counting.FailOnce[h.topic] = true
			r.Fault("subscribe-error")
		}
		add(h)
		n := 1 + t.Int(3)
		done := make(chan struct{}, n)
		for i := 0; i < n; i++ {
			go func() {
				if err := rig.Router.RunHandlers(rig.ctx); err != nil && !rig.Router.IsClosed() && !(anyFailFirst && strings.Contains(err.Error(), "scripted subscribe error")) {
					r.Fail("C10.R2", "RunHandlers on a running router failed", "%v", err)
				}
				done <- struct{}{}
			}()
		}
		for i := 0; i < n; i++ {
			<-done
		}
		if failFirst && counting.Returned[h.topic] == 0 {
			// the only call so far met the failing Subscribe: try again
			if err := rig.Router.RunHandlers(rig.ctx); err != nil && !rig.Router.IsClosed() {
				r.Fail("C10.R2", "RunHandlers failed again after a transient Subscribe error", "%v", err)
			}
		}
		// Another, still running RunHandlers call (a racer) may be the one that starts this handler: that the handler gets
		// its subscription exactly once is judged at the end of the run; the delivery obligation below only arises when the
		// subscription is already held at this instant.
		if counting.Returned[h.topic] != 1 {
			r.Probe("runhandlers-returned-before-subscription")
			continue
		}
		if h.stopMode != 1 && !h.sharedOut {
			u := "after-runhandlers-" + h.name
			if publish(h, u) && !stoppedSharing() {
				expects = append(expects, expect{h, u, "C10.R2", "a message published after RunHandlers returned was not delivered to the newly started handler"})
			}
		}
	}
	r.Sim.Quiesce()
	r.Logf("--- phase 2: stop some handlers")
	for _, h := range hs {
		if h.stopMode == 2 {
			h.stopCalled = true
			r.Fault("handler-stop")
			if pv, pan := Call(h.h.Stop); pan {
				r.Fail("C10.R3", "Handler.Stop panicked on a started handler", "%s: %v", h.name, pv)
			}
		}
	}
	r.Sim.Quiesce()
	allStopped := true
	for _, h := range hs {
		if !h.stopCalled {
			allStopped = false
		}
	}
	if !allStopped {
		for _, h := range hs {
			if h.stopCalled {
				if !h.stoppedClosed {
					r.Fail("C10.R3", "Stopped() did not close after Stop()", "%s", h.name)
				}
				continue
			}
			if h.sharedOut && stoppedSharing() {
				continue // shares the publisher of a stopped handler
			}
			u := "after-stop-" + h.name
			if publish(h, u) {
				expects = append(expects, expect{h, u, "C10.R4", "after another handler was stopped a running handler no longer processes messages"})
			}
		}
		r.Sim.Quiesce()
	}
	r.Logf("--- ending")
	slowSent := false
	if slowAtEnd && !allStopped {
		for _, h := range hs {
			if !h.stopCalled && !h.sharedOut && h.startedSeen {
				slowSent = publish(h, "slow-"+h.name)
				// let the invocation begin
				for k := 0; k < 200 && h.handled["slow-"+h.name] == 0; k++ {
					simrt.Yield()
				}
				break
			}
		}
	}
	switch {
	case allStopped:
		// the router closes itself
	case ending == 0:
		if err := rig.Router.Close(); err != nil && !slowSent {
			r.Fail("C10.R5", "Close returned an error with idle handlers", "%v", err)
		}
	case ending == 1:
		r.Fault("run-context-cancel")
		rig.cancel()
	default:
		for _, h := range hs {
			if !h.stopCalled {
				h.stopCalled = true
				r.Fault("handler-stop")
				h.h.Stop()
			}
		}
	}
	r.Sim.Quiesce()
	if secondRun == 2 {
		secondRunCheck("after the router closed")
	}
}

// A start that fails: the Subscribe call of one of the registered handlers returns an error while Run starts them.
// Whatever Run reports, Running() must stay open (and IsRunning false): a registered handler holds no subscription.
func c10FailedStart(r *Run) {
	t := r.T
	ps := gochannel.NewGoChannel(gochannel.Config{OutputChannelBuffer: int64(t.Int(3))}, nil)
	counting := NewCountingSubscriber(ps)
	rig := newRouterRig(r, 10*time.Second)
	n := 1 + t.Skewed(3)
	failAt := t.Int(n)
	for i := 0; i < n; i++ {
		topic := fmt.Sprintf("in-%d", i)
		if i == failAt {
			counting.FailOnce[topic] = true
		}
		rig.Router.AddNoPublisherHandler(fmt.Sprintf("h%d", i), topic, counting, func(m *message.Message) error { return nil })
	}
	r.Describe("%d handlers; the first Subscribe call for handler h%d fails while Run starts the handlers", n, failAt)
	r.Fault("subscribe-error-at-start")
	check := func(when string) {
		if rawClosed(rig.Router.Running()) || rig.Router.IsRunning() {
			r.Fail("C10.R1", "Running() was closed before every registered handler held its subscription", "%s: h%d never got a subscription (its Subscribe call failed), Running() closed=%v IsRunning=%v",
				when, failAt, rawClosed(rig.Router.Running()), rig.Router.IsRunning())
		}
	}
	rig.StartAsync()
	r.Sim.Quiesce()
	check("after the failed start")
	if rig.RunReturned {
		r.Probe("run-returned-after-failed-start")
	}
	go rig.Router.Close()
	r.Sim.Quiesce()
	ps.Close()
}

func init() {
	Register(&Scenario{Prop: "C10", Name: "failed-start", Setup: func(r *Run) simrt.Config {
		c := BaseConfig()
		c.Horizon = 10 * time.Minute
		return c
	}, Body: c10FailedStart, Real: []string{"message.Router", "gochannel.GoChannel"}, Stubs: []string{"CountingSubscriber (the first Subscribe call on one topic fails)"}, Weight: 1})
	Register(&Scenario{
		Prop: "C10", Name: "lifecycle",
		Setup: func(r *Run) simrt.Config {
			c := BaseConfig()
			c.Horizon = 10 * time.Minute
			if r.T.Chance(1, 2) {
				c.Fine = true
				c.FinePkg = "watermill/message."
			}
			return c
		},
		Body: c10Body, Weight: 6,
		Real:  []string{"message.Router (Run, RunHandlers, Running, Handler.Started/Stop/Stopped, watchAllHandlersStopped, Close)", "pubsub/gochannel.GoChannel (transport)"},
		Stubs: []string{"CountingSubscriber wrapper", "ScriptedPublisher", "sync.* -> vsync"},
	})
}
