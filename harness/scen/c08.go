package scen

import (
	"context"
	"strings"
	"fmt"
	"time"

	"github.com/ThreeDotsLabs/watermill/message"
	"github.com/ThreeDotsLabs/watermill/verifsim/simrt"
)

// C08 — Router routes per handler: right function, right topic, unmodified outputs.

type c8Parked struct {
	m  *message.Message
	by *c8Handler
}

// c8NamedSub / c8NamedPub: Pub/Subs that name themselves (fmt.Stringer), one name per instance.
type c8NamedSub struct {
	*ScriptedSubscriber
	label string
}

func (s c8NamedSub) String() string { return s.label }

type c8NamedPub struct {
	*ScriptedPublisher
	label string
}

func (p c8NamedPub) String() string { return p.label }

type c8Handler struct {
	name     string
	subTopic string
	pubTopic string
	sub      *ScriptedSubscriber
	pub      *ScriptedPublisher
	noPub    bool
	hh       *message.Handler
	named    bool // the router is handed Stringer wrappers around this handler's Pub/Sub: their String() is the type name to report
	addOut   bool // middleware that adds an output (only interesting on no-publisher handlers)
	outN     map[string]int  // uuid -> number of outputs
	passSelf map[string]bool // uuid -> return the consumed object itself as first output
	emptyUUID map[string]bool // uuid -> the last output of this message has an empty UUID
	earlyAck map[string]bool // uuid -> the handler acks the message itself, waits a little, then returns its outputs
	detach   map[string]bool // uuid -> the passed-on consumed object gets a fresh background context first
	// parkConsumed: the consumed object is kept in a shared list; reuseParked: the second output is an object parked by another handler
	parkConsumed map[string]bool
	reuseParked  map[string]bool
	invoked  map[*Delivery]int
	returned map[*Delivery][]*message.Message
	snaps    map[*Delivery][]*message.Message
}

func c08Body(r *Run) {
	t := r.T
	nH := 1 + t.Skewed(6)
	nSubs := 1 + t.Int(nH)
	nPubs := 1 + t.Int(nH)
	nTopics := 1 + t.Int(nH)
	subs := make([]*ScriptedSubscriber, nSubs)
	for i := range subs {
		subs[i] = NewScriptedSubscriber(r, fmt.Sprintf("sub%d", i))
		subs[i].Lanes = 1 + t.Skewed(4)
		subs[i].MaxRedeliver = 0
	}
	pubs := make([]*ScriptedPublisher, nPubs)
	for i := range pubs {
		pubs[i] = NewScriptedPublisher(r, fmt.Sprintf("pub%d", i))
	}
	// scripts per (subscriber, topic)
	for si, s := range subs {
		for ti := 0; ti < nTopics; ti++ {
			n := t.Skewed(5)
			for m := 0; m < n; m++ {
				s.Script[fmt.Sprintf("in%d", ti)] = append(s.Script[fmt.Sprintf("in%d", ti)],
					ScriptMsg{UUID: fmt.Sprintf("s%d-in%d-m%d", si, ti, m), Payload: fmt.Sprintf("payload-%d-%d-%d", si, ti, m), Metadata: map[string]string{"k": fmt.Sprint(m)}})
			}
		}
	}
	rig := newRouterRig(r, 30*time.Second)
	var hs []*c8Handler
	unnamed := -1
	if nH > 1 && t.Chance(1, 5) {
		unnamed = 1 + t.Int(nH-1)
	}
	ranFn := map[*message.Message]*c8Handler{} // which handler's function a message was passed to
	// produced message (by UUID: every output UUID occurs once in a run; a router may hand its publisher the returned
	// objects or equal copies) -> handler that returned it
	owner := map[string]*c8Handler{}
	ownerPtr := map[*message.Message]*c8Handler{} // the returned objects themselves (UUIDs of passed-on consumed messages may repeat)
	var parked []c8Parked
	for i := 0; i < nH; i++ {
		hname := fmt.Sprintf("handler-%d", i)
		if i == unnamed {
			hname = "" // AddHandler accepts the empty name
		}
		h := &c8Handler{name: hname, outN: map[string]int{}, passSelf: map[string]bool{}, detach: map[string]bool{}, earlyAck: map[string]bool{}, emptyUUID: map[string]bool{}, parkConsumed: map[string]bool{}, reuseParked: map[string]bool{},
			invoked: map[*Delivery]int{}, returned: map[*Delivery][]*message.Message{}, snaps: map[*Delivery][]*message.Message{}}
		h.sub = subs[t.Int(nSubs)]
		h.pub = pubs[t.Int(nPubs)]
		h.subTopic = fmt.Sprintf("in%d", t.Int(nTopics))
		h.pubTopic = fmt.Sprintf("out%d", t.Int(nTopics))
		if t.Chance(1, 6) {
			h.pubTopic = "" // a publisher that routes by metadata does not need a topic
		}
		h.noPub = t.Chance(1, 5)
		h.named = t.Chance(1, 3)
		if h.noPub {
			h.addOut = t.Chance(1, 2)
		} else {
			// a middleware of a publishing handler that appends a message of its own to what the handler returned
			h.addOut = t.Chance(1, 4)
		}
		for _, sm := range h.sub.Script[h.subTopic] {
			h.outN[sm.UUID] = t.Int(4)
			h.passSelf[sm.UUID] = t.Chance(1, 4)
			h.parkConsumed[sm.UUID] = t.Chance(1, 3)
			h.reuseParked[sm.UUID] = t.Chance(1, 3)
			h.detach[sm.UUID] = t.Chance(1, 2)
			h.earlyAck[sm.UUID] = t.Chance(1, 4)
			h.emptyUUID[sm.UUID] = t.Chance(1, 6)
		}
		hs = append(hs, h)
		r.Describe("%s: %s/%s -> %s/%s noPublisher=%v addOutputMiddleware=%v outputs=%v passSelf=%v", h.name, h.sub.Name, h.subTopic, h.pub.Name, h.pubTopic, h.noPub, h.addOut, h.outN, h.passSelf)
	}
	checkCtx := func(where string, h *c8Handler, m *message.Message) {
		ctx := m.Context()
		pubName, subName := "scen.ScriptedPublisher", "scen.ScriptedSubscriber"
		if h.named {
			pubName, subName = "pub of "+h.name, "sub of "+h.name
		}
		pubTopic := h.pubTopic
		if h.noPub {
			// what stands in for the missing publisher is the router's business: its type name is not compared
			pubName = message.PublisherNameFromCtx(ctx)
			pubTopic = ""
		}
		got := [5]string{message.HandlerNameFromCtx(ctx), message.SubscribeTopicFromCtx(ctx), message.PublishTopicFromCtx(ctx), message.SubscriberNameFromCtx(ctx), message.PublisherNameFromCtx(ctx)}
		want := [5]string{h.name, h.subTopic, pubTopic, subName, pubName}
		if got != want {
			r.Fail("C08.R4", "router context accessors report another handler's wiring", "%s of %s, message %s: got %v want %v", where, h.name, m.UUID, got, want)
		}
	}
	register := func(h *c8Handler) {
		fn := func(msg *message.Message) ([]*message.Message, error) {
			d := h.sub.ByMsg[msg]
			if d == nil {
				// emitted by another subscriber object?
				r.Fail("C08.R1", "a handler received a message that its own subscriber never emitted", "%s got %s", h.name, msg.UUID)
				return nil, nil
			}
			if d.Topic != h.subTopic {
				r.Fail("C08.R1", "a handler received a message of another subscribe topic", "%s (topic %s) got %s emitted on %s", h.name, h.subTopic, msg.UUID, d.Topic)
			}
			h.invoked[d]++
			ranFn[msg] = h
			checkCtx("consumed message inside handler", h, msg)
			if h.earlyAck[msg.UUID] {
				// settled by the handler itself before it is done (like InstantAck): the broker ends the delivery's context,
				// the outputs still have to be handed over
				msg.Ack()
				time.Sleep(time.Millisecond)
			}
			var outs []*message.Message
			if !h.noPub {
				for k := 0; k < h.outN[msg.UUID]; k++ {
					if k == 0 && h.passSelf[msg.UUID] {
						if h.detach[msg.UUID] {
							// passed on detached from the delivery's context (which the subscriber may cancel on Ack)
							msg.SetContext(context.Background())
						}
						outs = append(outs, msg)
						continue
					}
					if k == 1 && h.reuseParked[msg.UUID] {
						// a message object that went through ANOTHER handler earlier (collected there, flushed here)
						for pi, pm := range parked {
							if pm.by != h {
								outs = append(outs, pm.m)
								parked = append(parked[:pi], parked[pi+1:]...)
								r.Probe("output-object-came-from-another-handler")
								break
							}
						}
						if len(outs) > k {
							continue
						}
					}
					o := message.NewMessage(fmt.Sprintf("%s>%s>%d", msg.UUID, h.name, k), []byte(fmt.Sprintf("out-%s-%d", h.name, k)))
					if h.emptyUUID[msg.UUID] && k == h.outN[msg.UUID]-1 {
						o.UUID = "" // "UUID can be empty": handed on as it is
					}
					o.Metadata.Set("from", h.name)
					o.Metadata.Set("n", fmt.Sprint(k))
					outs = append(outs, o)
				}
			}
			if h.parkConsumed[msg.UUID] && !h.passSelf[msg.UUID] {
				parked = append(parked, c8Parked{msg, h})
			}
			h.returned[d] = outs
			var sn []*message.Message
			for _, o := range outs {
				// every output says which handler returned it (also the passed-on and the borrowed objects): an equal copy
				// can then be told apart from another handler's output with the same UUID
				o.Metadata.Set("from", h.name)
				sn = append(sn, SnapMsg(o))
				owner[o.UUID+"|"+h.name] = h
				ownerPtr[o] = h
			}
			h.snaps[d] = sn
			return outs, nil
		}
		var hh *message.Handler
		var hsub message.Subscriber = h.sub
		var hpub message.Publisher = h.pub
		if h.named {
			hsub, hpub = c8NamedSub{h.sub, "sub of " + h.name}, c8NamedPub{h.pub, "pub of " + h.name}
		}
		if h.noPub {
			hh = rig.Router.AddNoPublisherHandler(h.name, h.subTopic, hsub, func(m *message.Message) error { _, err := fn(m); return err })
			if h.addOut {
				hh.AddMiddleware(func(next message.HandlerFunc) message.HandlerFunc {
					return func(m *message.Message) ([]*message.Message, error) {
						o, err := next(m)
						if other := ranFn[m]; other != nil && other.name != h.name {
							r.Fail("C08.R1", "a middleware added to one handler ran in the chain of another handler", "middleware of %q ran for %s, which went to %q", h.name, m.UUID, other.name)
						}
						x := message.NewMessage(m.UUID+">mw", []byte("mw"))
						x.Metadata.Set("from", h.name)
						owner[x.UUID+"|"+h.name] = h
						ownerPtr[x] = h
						return append(o, x), err
					}
				})
			}
		} else {
			hh = rig.Router.AddHandler(h.name, h.subTopic, hsub, h.pubTopic, hpub, fn)
			if h.addOut {
				hh.AddMiddleware(func(next message.HandlerFunc) message.HandlerFunc {
					return func(m *message.Message) ([]*message.Message, error) {
						o, err := next(m)
						if other := ranFn[m]; other != nil && other.name != h.name {
							r.Fail("C08.R1", "a middleware added to one handler ran in the chain of another handler", "middleware of %q ran for %s, which went to %q", h.name, m.UUID, other.name)
							return o, err
						}
						if d := h.sub.ByMsg[m]; d != nil && err == nil {
							x := message.NewMessage(m.UUID+">"+h.name+">mw", []byte("mw"))
							x.Metadata.Set("from", h.name)
							owner[x.UUID+"|"+h.name] = h
							ownerPtr[x] = h
							h.returned[d] = append(append([]*message.Message(nil), h.returned[d]...), x)
							h.snaps[d] = append(append([]*message.Message(nil), h.snaps[d]...), SnapMsg(x))
							o = append(append([]*message.Message(nil), o...), x)
						}
						return o, err
					}
				})
			}
		}
		h.hh = hh
	}
	for _, h := range hs {
		register(h)
	}
	hook := func(p *ScriptedPublisher) {
		p.Hook = func(c *PubCall) {
			for _, m := range c.Msgs {
				h := ownerPtr[m]
				if h == nil {
					h = owner[m.UUID+"|"+m.Metadata.Get("from")]
				}
				if h == nil {
					r.Fail("C08.R2", "a publisher received a message no handler returned", "%s got %s", p.Name, m.UUID)
					continue
				}
				if h.pub != p || h.noPub {
					r.Fail("C08.R2", "a handler's output was handed to another handler's publisher", "%s returned %s, published on %s", h.name, m.UUID, p.Name)
				}
				if c.Topic != h.pubTopic {
					r.Fail("C08.R2", "a handler's output was published on another topic", "%s returned %s, topic %s want %s", h.name, m.UUID, c.Topic, h.pubTopic)
				}
				checkCtx("produced message at publish time", h, m)
			}
		}
	}
	for _, p := range pubs {
		hook(p)
	}
	var reborn *c8Handler // registered under the name of a handler that was stopped before

	r.Sim.AtEnd(func() {
		if reborn != nil && reborn.sub.Subscribes[reborn.subTopic] == 0 {
			r.Fail("C08.R1", "a handler registered under the name of a stopped one was never started", "%q on %s", reborn.name, reborn.subTopic)
		}
		// subscription -> handler must be a consistent, injective mapping
		type subKey struct {
			s *ScriptedSubscriber
			n int
		}
		subOwner := map[subKey]*c8Handler{}
		for _, h := range hs {
			for d := range h.invoked {
				k := subKey{d.Sub, d.SubN}
				if o, ok := subOwner[k]; ok && o != h {
					r.Fail("C08.R1", "messages of one subscription were passed to two different handlers", "%s and %s both got messages of subscription #%d of %s", o.name, h.name, d.SubN, d.Sub.Name)
				}
				subOwner[k] = h
			}
		}
		for _, s := range subs {
			for _, d := range s.Deliveries {
				total := 0
				var who *c8Handler
				for _, h := range hs {
					if n := h.invoked[d]; n > 0 {
						total += n
						who = h
					}
				}
				if total != 1 {
					r.Fail("C08.R1", "an emitted message was not passed to exactly one handler function", "%s emitted on %s/%s (subscription #%d): %d invocations", d.Msg.UUID, s.Name, d.Topic, d.SubN, total)
					continue
				}
				h := who
				outs := h.returned[d]
				expectAck := true
				if h.noPub && h.addOut && !h.earlyAck[d.Msg.UUID] {
					expectAck = false // (a settlement the handler made itself stands)
				}
				if d.Acked() != expectAck || d.Nacked() == expectAck {
					sig := "a message whose handler succeeded was not acked"
					if !expectAck {
						sig = "a no-publisher handler whose chain returned messages did not Nack"
					}
					r.Fail("C08.R3", sig, "%s %s acked=%v nacked=%v", h.name, d.Msg.UUID, d.Acked(), d.Nacked())
				}
				// find the publish call(s) carrying these outputs
				if len(outs) == 0 {
					continue
				}
				// the outputs may be handed over in one call or in several, but completely, once, in order and unmodified
				type pos struct {
					call, idx int
				}
				last := pos{-1, -1}
				for i, o := range outs {
					var at []pos
					for ci, c := range h.pub.Calls {
						for mi, m := range c.Msgs {
							if m == o {
								at = append(at, pos{ci, mi})
							}
						}
					}
					if len(at) == 0 {
						// not the object itself: an equal copy then (told apart by UUID, and by topic where handlers share a publisher)
						for ci, c := range h.pub.Calls {
							for mi, m := range c.Msgs {
								if m.UUID == o.UUID && ownerPtr[m] == nil && c.Topic == h.pubTopic && m.Metadata.Get("from") == h.name {
									at = append(at, pos{ci, mi})
								}
							}
						}
					}
					if len(at) == 0 {
						r.Fail("C08.R2", "a handler's outputs were never handed to its publisher", "%s %s returned %d messages, output %d (%s) missing", h.name, d.Msg.UUID, len(outs), i, o.UUID)
						break
					}
					if len(at) > 1 && h.pub.Calls[at[0].call].Msgs[at[0].idx] == o {
						r.Fail("C08.R2", "a handler's outputs were published more than once", "%s %s output %d (%s)", h.name, d.Msg.UUID, i, o.UUID)
						break
					}
					if at[0].call < last.call || (at[0].call == last.call && at[0].idx <= last.idx) {
						r.Fail("C08.R2", "outputs reordered or replaced", "%s %s position %d", h.name, d.Msg.UUID, i)
					}
					last = at[0]
					if sn := h.pub.Calls[at[0].call].Snap[at[0].idx]; !sn.Equals(h.snaps[d][i]) {
						r.Fail("C08.R2", "an output was modified between the handler and the publisher", "%s %s position %d: %v vs %v", h.name, d.Msg.UUID, i, sn, h.snaps[d][i])
					}
				}
			}
		}
	})
	if t.Chance(1, 3) {
		// Watermill's own transforming decorator around every handler's publisher (with a transformation that changes
		// nothing): the outputs still reach the handler's publisher unmodified, context included
		rig.Router.AddPublisherDecorators(message.MessageTransformPublisherDecorator(func(m *message.Message) {}))
		r.Probe("transform-publisher-decorator")
	}
	rig.Start()
	r.Sim.Quiesce()
	// a third of the runs with several handlers: one handler is stopped and, as soon as its name is free again, a new
	// handler with another subscriber, publisher and topics is registered under that name and started once the old one
	// has reported Stopped(): it is wired to ITS Pub/Sub and topics
	var old *c8Handler
	for _, h := range hs {
		// (a handler without middleware of its own: whether a predecessor's middlewares still apply to a new handler of the
		// same name is not specified)
		if !h.addOut && old == nil {
			old = h
		}
	}
	if nH > 1 && old != nil && t.Chance(1, 3) {
		r.Fault("handler-stopped-and-registered-again-under-its-name")
		old.pub.CloseDelay = 20 * time.Millisecond // its shutdown takes a moment
		old.hh.Stop()
		h2 := &c8Handler{name: old.name, outN: map[string]int{}, passSelf: map[string]bool{}, detach: map[string]bool{}, earlyAck: map[string]bool{}, emptyUUID: map[string]bool{}, parkConsumed: map[string]bool{}, reuseParked: map[string]bool{},
			invoked: map[*Delivery]int{}, returned: map[*Delivery][]*message.Message{}, snaps: map[*Delivery][]*message.Message{}}
		h2.sub = NewScriptedSubscriber(r, "sub-again")
		h2.sub.MaxRedeliver = 0
		h2.pub = NewScriptedPublisher(r, "pub-again")
		h2.subTopic, h2.pubTopic = "in-again", "out-again"
		for i := 0; i < 2; i++ {
			u := fmt.Sprintf("again-m%d", i)
			h2.sub.Script[h2.subTopic] = append(h2.sub.Script[h2.subTopic], ScriptMsg{UUID: u, Payload: "p"})
			h2.outN[u] = 1
		}
		subs = append(subs, h2.sub)
		pubs = append(pubs, h2.pub)
		hook(h2.pub)
		registered := false
		for tries := 0; tries < 2000 && !registered; tries++ {
			pv, pan := Call(func() { register(h2) })
			switch {
			case !pan:
				registered = true
			case strings.Contains(fmt.Sprint(pv), "already exists") || strings.Contains(fmt.Sprintf("%T", pv), "DuplicateHandlerNameError"):
				simrt.Yield() // the old handler still holds the name
			default:
				r.Fail("C08.R1", "AddHandler panicked", "%v", pv)
				tries = 2000
			}
		}
		<-old.hh.Stopped()
		if registered {
			hs = append(hs, h2)
			reborn = h2
			if err := rig.Router.RunHandlers(rig.ctx); err != nil {
				r.Probe("runhandlers-error")
			}
			r.Sim.Quiesce()
		}
	}
	rig.Router.Close()
}

func init() {
	Register(&Scenario{
		Prop: "C08", Name: "routing",
		Setup: func(r *Run) simrt.Config {
			c := BaseConfig()
			c.Horizon = 10 * time.Minute
			MaybeFine(r, &c, "watermill/message.", 1, 4)
			return c
		},
		Body:  c08Body,
		Real:  []string{"message.Router", "message router context accessors", "message.Message"},
		Stubs: []string{"ScriptedSubscriber", "ScriptedPublisher", "sync.* -> vsync"},
	})
}
