package scen

import (
	"context"
	"errors"
	"fmt"
	"strings"
	"time"

	"github.com/prometheus/client_golang/prometheus"

	"github.com/ThreeDotsLabs/watermill/components/delay"
	"github.com/ThreeDotsLabs/watermill/components/metrics"
	"github.com/ThreeDotsLabs/watermill/message"
	"github.com/ThreeDotsLabs/watermill/verifsim/simrt"
)

// C20 — Pub/Sub decorators are transparent; delay stamps and metrics count exactly.

// gathered: metric name -> "label=value,..." -> count
func c20Gather(r *Run, reg *prometheus.Registry) map[string]map[string]uint64 {
	out := map[string]map[string]uint64{}
	mfs, err := reg.Gather()
	if err != nil {
		r.Fail("C20.R9", "Prometheus Gather failed", "%v", err)
		return out
	}
	for _, mf := range mfs {
		m := map[string]uint64{}
		for _, x := range mf.GetMetric() {
			var ls []string
			for _, lp := range x.GetLabel() {
				ls = append(ls, lp.GetName()+"="+lp.GetValue())
			}
			key := strings.Join(ls, ",")
			if h := x.GetHistogram(); h != nil {
				m[key] += h.GetSampleCount()
			}
			if c := x.GetCounter(); c != nil {
				m[key] += uint64(c.GetValue())
			}
		}
		out[mf.GetName()] = m
	}
	return out
}

// c20Project sums a gathered or expected metric over all labels but the named ones: the property speaks about the
// success/acked label (and, inside a router, the handler a count belongs to), not about how publishers and subscribers
// are named or which further labels exist.
func c20Project(m map[string]uint64, keep ...string) map[string]uint64 {
	out := map[string]uint64{}
	for key, n := range m {
		var ls []string
		for _, kv := range strings.Split(key, ",") {
			for _, k := range keep {
				if strings.HasPrefix(kv, k+"=") {
					ls = append(ls, kv)
				}
			}
		}
		out[strings.Join(ls, ",")] += n
	}
	return out
}

func c20Compare(r *Run, what string, got map[string]uint64, want map[string]uint64, keep ...string) {
	if len(keep) > 0 {
		got, want = c20Project(got, keep...), c20Project(want, keep...)
	}
	for k, w := range want {
		if w == 0 {
			continue
		}
		if got[k] != w {
			r.Fail("C20.R7", "a Prometheus metric does not equal the number of events the harness counted", "%s{%s}: gathered %d, counted %d (all gathered: %v)", what, k, got[k], w, got)
		}
	}
	for k, g := range got {
		if want[k] == 0 && g != 0 {
			r.Fail("C20.R7", "a Prometheus metric counts events that did not happen (wrong label?)", "%s{%s}: gathered %d, counted 0 (counted: %v)", what, k, g, want)
		}
	}
}

const (
	c20Transform = iota
	c20Delay
	c20Metrics
)

type c20DelaySpec struct {
	kind     int // 0 none, 1 preset metadata, 2 ctx For, 3 ctx Until, 4 ctx zero delay
	d        time.Duration
	until    time.Time
	presetFor, presetUntil string
}

func c20PublisherStack(r *Run) {
	t := r.T
	depth := 1 + t.Int(3)
	var layers []int
	for i := 0; i < depth; i++ {
		layers = append(layers, t.Int(3))
	}
	genMode := t.Int(3) // 0 absent, 1 present, 2 failing
	allowNoDelay := t.Chance(1, 2)
	inner := NewScriptedPublisher(r, "inner")
	nBatches := 1 + t.Skewed(5)
	for i := 0; i < t.Skewed(3); i++ {
		inner.FailAt[1+t.Int(nBatches)] = PubErr
	}
	reg := prometheus.NewRegistry()
	builder := metrics.NewPrometheusMetricsBuilder(reg, "ns", "sub")
	genDelay := 42 * time.Second
	cfg := delay.PublisherConfig{AllowNoDelay: allowNoDelay}
	errGen := errors.New("generator failed")
	switch genMode {
	case 1:
		cfg.DefaultDelayGenerator = func(p delay.DefaultDelayGeneratorParams) (delay.Delay, error) { return delay.For(genDelay), nil }
	case 2:
		cfg.DefaultDelayGenerator = func(p delay.DefaultDelayGeneratorParams) (delay.Delay, error) { return delay.Delay{}, errGen }
	}
	var pub message.Publisher = inner
	nDelay, nMetrics := 0, 0
	var tags []string
	// layers[0] is the outermost: wrap from the innermost outwards
	for i := len(layers) - 1; i >= 0; i-- {
		var err error
		switch layers[i] {
		case c20Transform:
			tag := fmt.Sprintf("t%d", i)
			tags = append(tags, tag)
			pub, err = message.MessageTransformPublisherDecorator(func(m *message.Message) { m.Metadata.Set(tag, "1") })(pub)
		case c20Delay:
			pub, err = delay.NewPublisher(pub, cfg)
			nDelay++
		default:
			pub, err = builder.DecoratePublisher(pub)
			nMetrics++
		}
		if err != nil {
			r.HarnessErr = err.Error()
			return
		}
	}
	var names []string
	for _, l := range layers {
		names = append(names, [...]string{"MessageTransform", "delay.Publisher", "metrics"}[l])
	}
	r.Describe("publisher stack (outermost first) %v around a scripted publisher failing on calls %v; delay config generator=%d (0 absent 1 present 2 failing) AllowNoDelay=%v; %d batches", names, inner.FailAt, genMode, allowNoDelay, nBatches)

	wantPub := map[string]uint64{}
	for b := 0; b < nBatches; b++ {
		n := 1 + t.Skewed(4)
		var msgs []*message.Message
		var specs []c20DelaySpec
		now := time.Now().UTC()
		for i := 0; i < n; i++ {
			m := message.NewMessage(fmt.Sprintf("b%d-m%d", b, i), []byte("p"))
			sp := c20DelaySpec{kind: t.Int(5)}
			switch sp.kind {
			case 1:
				sp.presetFor, sp.presetUntil = "7s", "2001-02-03T04:05:06Z"
				m.Metadata.Set(delay.DelayedForKey, sp.presetFor)
				m.Metadata.Set(delay.DelayedUntilKey, sp.presetUntil)
			case 2:
				sp.d = simrt.Pick(t, time.Second, 0, -5*time.Second, 1000*time.Hour, 1500*time.Millisecond)
				m.SetContext(delay.WithContext(context.Background(), delay.For(sp.d)))
			case 3:
				sp.until = now.Add(simrt.Pick(t, time.Minute, -time.Hour, 0, 10000*time.Hour))
				m.SetContext(delay.WithContext(context.Background(), delay.Until(sp.until)))
			case 4:
				m.SetContext(delay.WithContext(context.Background(), delay.Delay{}))
			}
			msgs = append(msgs, m)
			specs = append(specs, sp)
		}
		// a third of the batches are published a few seconds after the messages (and the delays in their contexts) were made
		if t.Chance(1, 3) {
			time.Sleep(time.Duration(1+t.Int(4)) * time.Second)
		}
		pubNow := time.Now().UTC()
		before := len(inner.Calls)
		var perr error
		pv, pan := Call(func() { perr = pub.Publish("topic", msgs...) })
		if pan {
			r.Fail("C20.R1", "a decorated Publish panicked", "%v", pv)
			return
		}
		what := fmt.Sprintf("batch %d (%d messages, delay kinds %v) through %v", b, n, kindsOfDelay(specs), names)
		// whatever became of the call (accepted, rejected, failed further down): a message that arrived with its own delay
		// metadata still carries it — "metadata already present" keeps its precedence when the caller tries again
		for i, sp := range specs {
			if sp.kind == 1 && (msgs[i].Metadata.Get(delay.DelayedForKey) != sp.presetFor || msgs[i].Metadata.Get(delay.DelayedUntilKey) != sp.presetUntil) {
				r.Fail("C20.R3", "the delay metadata a message arrived with was changed or removed", "%s: %s has for=%q until=%q after Publish returned %v, it arrived with %q %q",
					what, msgs[i].UUID, msgs[i].Metadata.Get(delay.DelayedForKey), msgs[i].Metadata.Get(delay.DelayedUntilKey), perr, sp.presetFor, sp.presetUntil)
			}
		}
		// expected: does a delay layer reject the batch?
		reject := error(nil)
		rejectOptional, genFailedPassed := false, false
		_ = genFailedPassed
		if nDelay > 0 {
			for _, sp := range specs {
				if sp.kind != 0 {
					continue
				}
				if genMode == 2 {
					reject = errGen
					rejectOptional = allowNoDelay // no delay is available: with AllowNoDelay passing it on unstamped is in order too
					break
				}
				if genMode == 0 && !allowNoDelay {
					reject = errors.New("message doesn't have a delay set")
					break
				}
			}
		}
		calls := inner.Calls[before:]
		if reject != nil && rejectOptional && perr == nil && len(calls) == 1 {
			r.Probe("failing-generator-passed-on-without-delay")
			genFailedPassed = true
			reject = nil
		}
		if reject != nil {
			if len(calls) != 0 {
				r.Fail("C20.R4", "something was published although a message of the batch has no delay and none is allowed", "%s: %d inner calls", what, len(calls))
			}
			if perr == nil {
				r.Fail("C20.R4", "Publish succeeded although a message of the batch has no delay and none is allowed", "%s", what)
			}
			// a metrics layer above the rejecting delay layer counts one failed call; below it, nothing arrives
			firstDelay, firstMetrics := -1, -1
			for i, l := range layers {
				if l == c20Delay && firstDelay < 0 {
					firstDelay = i
				}
				if l == c20Metrics && firstMetrics < 0 {
					firstMetrics = i
				}
			}
			if firstMetrics >= 0 && firstMetrics < firstDelay {
				wantPub[c20PubLabel(layers, firstMetrics, false)]++
			}
			continue
		}
		if len(calls) != 1 {
			r.Fail("C20.R1", "a batch was not forwarded to the inner publisher in exactly one call", "%s: %d inner calls", what, len(calls))
			continue
		}
		c := calls[0]
		if c.Topic != "topic" || len(c.Msgs) != n {
			r.Fail("C20.R1", "the inner publisher got another topic or number of messages", "%s: topic %q, %d messages", what, c.Topic, len(c.Msgs))
			continue
		}
		if (perr == nil) != (c.Err == nil) || (perr != nil && !errors.Is(perr, c.Err)) {
			r.Fail("C20.R1", "the inner publisher's error did not pass through the decorators unchanged", "%s: got %v, inner returned %v", what, perr, c.Err)
		}
		if nMetrics > 0 {
			first := -1
			for i, l := range layers {
				if l == c20Metrics && first < 0 {
					first = i
				}
			}
			wantPub[c20PubLabel(layers, first, c.Err == nil)]++
		}
		for i, m := range c.Msgs {
			if m != msgs[i] && (m.UUID != msgs[i].UUID || string(m.Payload) != string(msgs[i].Payload)) {
				r.Fail("C20.R1", "messages were reordered or replaced on their way through the decorators", "%s position %d", what, i)
				continue
			}
			snap := c.Snap[i]
			for _, tg := range tags {
				if snap.Metadata.Get(tg) != "1" {
					r.Fail("C20.R1", "a MessageTransform publisher decorator did not act on a message", "%s: %s lacks %s", what, m.UUID, tg)
				}
			}
			if nDelay == 0 {
				if specs[i].kind != 1 && (snap.Metadata.Get(delay.DelayedForKey) != "" || snap.Metadata.Get(delay.DelayedUntilKey) != "") {
					r.Fail("C20.R3", "a delay was stamped although no delay.Publisher is in the stack", "%s: %s", what, m.UUID)
				}
				continue
			}
			gotFor, gotUntil := snap.Metadata.Get(delay.DelayedForKey), snap.Metadata.Get(delay.DelayedUntilKey)
			sp := specs[i]
			switch sp.kind {
			case 1:
				if gotFor != sp.presetFor || gotUntil != sp.presetUntil {
					r.Fail("C20.R3", "delay metadata that was already present was overwritten", "%s: %s for=%q until=%q", what, m.UUID, gotFor, gotUntil)
				}
			case 2:
				c20CheckStamp(r, what, m.UUID, gotFor, gotUntil, sp.d, now.Add(sp.d), now, "context delay (For)")
			case 3:
				c20CheckStamp(r, what, m.UUID, gotFor, gotUntil, sp.until.Sub(now), sp.until, now, "context delay (Until)")
			case 4:
				// a zero delay in the context: stamped as a zero delay (how "until" is written for it is not specified)
				if zd, zerr := time.ParseDuration(gotFor); zerr != nil || zd != 0 {
					r.Fail("C20.R3", "the (zero) delay found in the message context was not the one stamped", "%s: %s for=%q until=%q", what, m.UUID, gotFor, gotUntil)
				}
			default:
				if genMode == 1 {
					c20CheckStamp(r, what, m.UUID, gotFor, gotUntil, genDelay, pubNow.Add(genDelay), pubNow, "default generator")
				} else if gotFor != "" || gotUntil != "" {
					r.Fail("C20.R3", "a delay was stamped although none is available (AllowNoDelay)", "%s: %s for=%q until=%q", what, m.UUID, gotFor, gotUntil)
				}
			}
		}
	}
	pub.Close()
	if inner.Closes != 1 {
		r.Fail("C20.R2", "Close did not pass through the publisher decorators exactly once", "inner Close calls: %d", inner.Closes)
	}
	if nMetrics > 0 {
		c20Compare(r, "publish_time_seconds", c20Gather(r, reg)["ns_sub_publish_time_seconds"], wantPub, "success")
	}
}

func c20PubLabel(layers []int, metricsIdx int, success bool) string {
	// publisher_name is the type of what the outermost metrics decorator wraps
	name := "scen.ScriptedPublisher"
	if metricsIdx+1 < len(layers) {
		switch layers[metricsIdx+1] {
		case c20Transform:
			name = "message.messageTransformPublisherDecorator"
		case c20Delay:
			name = "delay.publisher"
		default:
			name = "metrics.PublisherPrometheusMetricsDecorator"
		}
	}
	return fmt.Sprintf("handler_name=<no handler>,publisher_name=%s,success=%v", name, success)
}

func kindsOfDelay(s []c20DelaySpec) []int {
	var o []int
	for _, x := range s {
		o = append(o, x.kind)
	}
	return o
}

// from: the earliest instant the delay can have been made (the stamp's "now" lies between it and the present)
func c20CheckStamp(r *Run, what, uuid, gotFor, gotUntil string, wantFor time.Duration, wantUntil time.Time, from time.Time, source string) {
	f, ferr := time.ParseDuration(gotFor)
	u, uerr := time.Parse(time.RFC3339, gotUntil)
	if ferr != nil || uerr != nil {
		r.Fail("C20.R3", "delay metadata missing or unparsable although a delay is available", "%s: %s (%s) for=%q until=%q", what, uuid, source, gotFor, gotUntil)
		return
	}
	if d := f - wantFor; d > time.Second || d < -time.Second {
		r.Fail("C20.R3", "the stamped delay is not the one chosen by precedence", "%s: %s (%s) delayed-for %v, expected %v", what, uuid, source, f, wantFor)
	}
	if d := u.Sub(wantUntil); d > time.Second || d < -time.Second {
		r.Fail("C20.R3", "the stamped delayed-until is not the one chosen by precedence", "%s: %s (%s) delayed-until %v, expected %v", what, uuid, source, u, wantUntil)
	}
	// delayed-until and delayed-for agree: until minus for is an instant between the making of the delay and now
	if origin := u.Add(-f); origin.Before(from.Add(-time.Second)) || origin.After(time.Now().UTC().Add(time.Second)) {
		r.Fail("C20.R3", "delayed-for and delayed-until disagree", "%s: %s for=%v until=%v now=%v", what, uuid, f, u, time.Now().UTC())
	}
}

func c20SubscriberStack(r *Run) {
	t := r.T
	depth := 1 + t.Int(3)
	inner := NewScriptedSubscriber(r, "inner-sub")
	inner.MaxRedeliver = 2
	n := 1 + t.Skewed(6)
	nackPlan := map[string]int{}
	for i := 0; i < n; i++ {
		u := fmt.Sprintf("m%d", i)
		inner.Script["topic"] = append(inner.Script["topic"], ScriptMsg{UUID: u, Payload: fmt.Sprint(i)})
		if t.Chance(1, 3) {
			nackPlan[u] = 1 + t.Int(2)
		}
	}
	reg := prometheus.NewRegistry()
	builder := metrics.NewPrometheusMetricsBuilder(reg, "ns", "sub")
	var sub message.Subscriber = inner
	var names, tags []string
	nMetrics := 0
	firstWrapped := "" // type name of what the innermost metrics decorator wraps
	for i := 0; i < depth; i++ {
		var err error
		if t.Chance(1, 2) {
			tag := fmt.Sprintf("s%d", i)
			tags = append(tags, tag)
			sub, err = message.MessageTransformSubscriberDecorator(func(m *message.Message) {
				m.Metadata.Set("subtrace", strings.TrimPrefix(m.Metadata.Get("subtrace")+","+tag, ","))
			})(sub)
			names = append(names, "MessageTransform")
		} else {
			if nMetrics == 0 {
				firstWrapped = fmt.Sprintf("%T", sub)
				firstWrapped = strings.TrimLeft(firstWrapped, "*")
			}
			sub, err = builder.DecorateSubscriber(sub)
			names = append(names, "metrics")
			nMetrics++
		}
		if err != nil {
			r.HarnessErr = err.Error()
			return
		}
	}
	r.Describe("subscriber stack (innermost first) %v around a scripted subscriber with %d messages, nack plan %v", names, n, nackPlan)
	ctx, cancel := context.WithCancel(context.Background())
	defer cancel()
	// a quarter of the runs: the inner Subscribe fails once; the error has to pass through and a retry must work
	if t.Chance(1, 4) {
		inner.SubscribeErrAt = 1
		r.Fault("subscribe-error")
		if _, serr := sub.Subscribe(ctx, "topic"); serr == nil || (!errors.Is(serr, ErrScriptedSubscribe) && !strings.Contains(serr.Error(), "scripted subscribe error")) {
			r.Fail("C20.R1", "the inner subscriber's Subscribe error did not pass through the decorators", "%v", serr)
		}
	}
	ch, err := sub.Subscribe(ctx, "topic")
	if err != nil {
		r.Fail("C20.R1", "Subscribe through the decorators failed", "%v", err)
		return
	}
	// a quarter of the runs: the inner subscriber's messages arrive with a context that has already ended (a per-message
	// deadline that has passed, say): a decorator passes them on like any other
	if t.Chance(1, 4) {
		inner.CtxDecor = func(ctx context.Context, m *message.Message, cancel context.CancelFunc) context.Context {
			cancel()
			return ctx
		}
		r.Fault("deliveries-with-ended-context")
	}
	// a sixth of the runs: the consumer keeps one message unsettled and stops reading; Close must still return
	holdAt := -1
	if t.Chance(1, 6) {
		holdAt = t.Int(n)
	}
	var got []*message.Message
	acks, nacks := uint64(0), uint64(0)
	seen := map[string]int{}
	// shutdown with a message in flight: the subscription context is cancelled after the k-th message was received
	// and before it is settled; that message still has to be counted
	cancelAt := -1
	if t.Chance(1, 3) {
		cancelAt = t.Int(n + 1)
	}
	go func() {
		for m := range ch {
			got = append(got, m)
			if len(got)-1 == cancelAt {
				r.Fault("subscription-cancel-before-settlement")
				cancel()
			}
			if len(got)-1 == holdAt {
				r.Fault("consumer-holds-unsettled-message")
				return
			}
			seen[m.UUID]++
			if seen[m.UUID] <= nackPlan[m.UUID] {
				nacks++
				m.Nack()
			} else {
				acks++
				m.Ack()
			}
		}
	}()
	r.Sim.Quiesce()
	// a quarter of the runs: the inner subscriber's first Close reports an error, and the caller closes again: every
	// Close call passes through, with its result
	closeTwice := t.Chance(1, 4)
	if closeTwice {
		inner.CloseErrAt = 1
		r.Fault("subscriber-close-error")
	}
	closeReturned := false
	go func() {
		err := sub.Close()
		if closeTwice {
			if err == nil || (!errors.Is(err, ErrScriptedClose) && !strings.Contains(err.Error(), "scripted close error")) {
				r.Fail("C20.R2", "the inner subscriber's Close error did not pass through the decorators", "%v", err)
			}
			if err2 := sub.Close(); err2 != nil {
				r.Fail("C20.R2", "a repeated Close through the subscriber decorators failed although the inner one succeeded", "%v", err2)
			}
		} else if err != nil {
			r.Fail("C20.R2", "Close through the subscriber decorators failed", "%v", err)
		}
		closeReturned = true
	}()
	r.Sim.Quiesce()
	if !closeReturned {
		r.Fail("C20.R2", "Close of a decorated subscriber never returned", "stack %v, cancelled in flight=%v, consumer holds a message=%v", names, cancelAt >= 0, holdAt >= 0)
		return
	}
	wantCloses := 1
	if closeTwice {
		wantCloses = 2
	}
	if inner.Closes != wantCloses {
		r.Fail("C20.R2", "Close did not pass through the subscriber decorators exactly once", "inner Close calls: %d for %d calls", inner.Closes, wantCloses)
	}
	// the message the consumer held back is settled only now, after Close: it is a settled received message all the same
	if holdAt >= 0 && holdAt < len(got) {
		r.Fault("settled-after-close")
		acks++
		got[holdAt].Ack()
		r.Sim.Quiesce()
	}
	if len(got) > len(inner.Deliveries) || (len(got) != len(inner.Deliveries) && cancelAt < 0 && holdAt < 0) {
		r.Fail("C20.R1", "the decorated subscriber did not pass every message exactly once", "received %d, inner emitted %d", len(got), len(inner.Deliveries))
		return
	}
	// after the subscription context was cancelled a message on its way may be dropped: it then stays unsettled
	for _, d := range inner.Deliveries[len(got):] {
		if d.Acked() {
			r.Fail("C20.R1", "a message that never reached the consumer was acked", "%s", d.Msg.UUID)
		}
	}
	for i, d := range inner.Deliveries[:len(got)] {
		if got[i] != d.Msg && got[i].UUID != d.Msg.UUID {
			r.Fail("C20.R1", "messages were reordered or replaced on their way through the subscriber decorators", "position %d: %s vs %s", i, got[i].UUID, d.Msg.UUID)
			continue
		}
		if !d.Settled() {
			r.Fail("C20.R1", "settling the received message did not settle the inner subscriber's message", "%s", d.Msg.UUID)
		}
		if st := got[i].Metadata.Get("subtrace"); st != strings.Join(tags, ",") {
			r.Fail("C20.R1", "MessageTransform subscriber decorators did not act once each, in order", "%s: %q expected %q", d.Msg.UUID, st, strings.Join(tags, ","))
		}
	}
	if nMetrics > 0 {
		want := map[string]uint64{
			"acked=acked,handler_name=<no handler>,subscriber_name=" + firstWrapped:  acks,
			"acked=nacked,handler_name=<no handler>,subscriber_name=" + firstWrapped: nacks,
		}
		c20Compare(r, "subscriber_messages_received_total", c20Gather(r, reg)["ns_sub_subscriber_messages_received_total"], want, "acked")
	}
}

func c20RouterMetrics(r *Run) {
	t := r.T
	reg := prometheus.NewRegistry()
	builder := metrics.NewPrometheusMetricsBuilder(reg, "ns", "sub")
	rig := newRouterRig(r, 30*time.Second)
	builder.AddPrometheusRouterMetrics(rig.Router)
	twice := t.Chance(1, 2)
	if twice {
		rig.Router.AddPublisherDecorators(builder.DecoratePublisher)
		rig.Router.AddSubscriberDecorators(builder.DecorateSubscriber)
	}
	nH := 1 + t.Skewed(3)
	type hnd struct {
		name string
		sub  *ScriptedSubscriber
		pub  *ScriptedPublisher
		plan map[string]int // uuid#attempt -> 0 success, 1 error, 2 panic, 3 publish failure, 4 success without outputs
	}
	var hs []*hnd
	wantHandler := map[string]uint64{}
	wantPub := map[string]uint64{}
	pubPanicked := false
	for i := 0; i < nH; i++ {
		h := &hnd{name: fmt.Sprintf("handler%d", i), plan: map[string]int{}}
		h.sub = NewScriptedSubscriber(r, h.name+"-sub")
		h.sub.MaxRedeliver = 2
		h.sub.Lanes = 1 + t.Skewed(3)
		h.pub = NewScriptedPublisher(r, h.name+"-pub")
		n := 1 + t.Skewed(5)
		for m := 0; m < n; m++ {
			u := fmt.Sprintf("%s-m%d", h.name, m)
			h.sub.Script["in"] = append(h.sub.Script["in"], ScriptMsg{UUID: u, Payload: "x"})
			for a := 0; a <= 3; a++ {
				h.plan[fmt.Sprintf("%s#%d", u, a)] = t.Int(8)
			}
		}
		hs = append(hs, h)
		hh := h
		h.pub.Decide = func(c *PubCall) PubFault {
			if len(c.Msgs) > 0 && c.Msgs[0].Metadata.Get("fail") == "1" {
				return PubErr
			}
			if len(c.Msgs) > 0 && c.Msgs[0].Metadata.Get("fail") == "2" {
				return PubPanic
			}
			return PubOK
		}
		rig.Router.AddHandler(h.name, "in", h.sub, "out", h.pub, func(m *message.Message) ([]*message.Message, error) {
			d := hh.sub.ByMsg[m]
			k := hh.plan[fmt.Sprintf("%s#%d", m.UUID, d.Attempt)]
			o := message.NewMessage(m.UUID+">o", []byte("o"))
			switch k {
			case 1:
				r.Fault("handler-error")
				wantHandler["handler_name="+hh.name+",success=false"]++
				return nil, errors.New("scripted error")
			case 2:
				r.Fault("handler-panic")
				wantHandler["handler_name="+hh.name+",success=false"]++
				panic("scripted panic")
			case 3:
				r.Fault("publisher-error")
				o.Metadata.Set("fail", "1")
				wantHandler["handler_name="+hh.name+",success=true"]++
				wantPub["handler_name="+hh.name+",publisher_name=scen.ScriptedPublisher,success=false"]++
				return []*message.Message{o}, nil
			case 4:
				wantHandler["handler_name="+hh.name+",success=true"]++
				return nil, nil
			case 7:
				// the inner publisher panics: the panic (or an error in its place) must come out of the decorators, the
				// message must not be acked. Which success label a panicking publish call gets is left open.
				r.Fault("publisher-panic")
				pubPanicked = true
				o.Metadata.Set("fail", "2")
				wantHandler["handler_name="+hh.name+",success=true"]++
				return []*message.Message{o}, nil
			case 6:
				// the handler gives up because something it called was cancelled: an invocation that failed, like any other
				r.Fault("handler-error")
				wantHandler["handler_name="+hh.name+",success=false"]++
				return nil, fmt.Errorf("downstream call: %w", context.Canceled)
			case 5:
				// the received message itself is passed on (it has been through the metrics subscriber decorator): the
				// publish call counts like any other
				wantHandler["handler_name="+hh.name+",success=true"]++
				wantPub["handler_name="+hh.name+",publisher_name=scen.ScriptedPublisher,success=true"]++
				return []*message.Message{m}, nil
			}
			wantHandler["handler_name="+hh.name+",success=true"]++
			wantPub["handler_name="+hh.name+",publisher_name=scen.ScriptedPublisher,success=true"]++
			return []*message.Message{o}, nil
		})
	}
	r.Describe("Router with Prometheus metrics (decorators applied twice: %v), %d handlers with outcome plans success/error/panic/publish-failure/no-output/pass-the-received-message-on", twice, nH)
	rig.Start()
	r.Sim.Quiesce()
	rig.Router.Close()
	r.Sim.Quiesce()
	g := c20Gather(r, reg)
	wantSub := map[string]uint64{}
	for _, h := range hs {
		for _, d := range h.sub.Deliveries {
			if k := h.plan[fmt.Sprintf("%s#%d", d.Msg.UUID, d.Attempt)]; d.Acked() && (k == 1 || k == 2 || k == 3 || k == 6 || k == 7) {
				r.Fail("C20.R2", "a message was acked although its handler or the wrapped publisher failed: the failure did not pass through the decorators",
					"%s delivery %s#%d outcome plan %d (1 error, 2 panic, 3 publisher error, 6 error wrapping Canceled, 7 publisher panic), decorators applied twice: %v", h.name, d.Msg.UUID, d.Attempt, k, twice)
			}
			if d.Acked() {
				wantSub["acked=acked,handler_name="+h.name+",subscriber_name=scen.ScriptedSubscriber"]++
			} else if d.Nacked() {
				wantSub["acked=nacked,handler_name="+h.name+",subscriber_name=scen.ScriptedSubscriber"]++
			}
		}
	}
	c20Compare(r, "handler_execution_time_seconds", g["ns_sub_handler_execution_time_seconds"], wantHandler, "handler_name", "success")
	if !pubPanicked {
		c20Compare(r, "publish_time_seconds", g["ns_sub_publish_time_seconds"], wantPub, "handler_name", "success")
	}
	c20Compare(r, "subscriber_messages_received_total", g["ns_sub_subscriber_messages_received_total"], wantSub, "handler_name", "acked")
}

func init() {
	real := []string{"message.MessageTransform{Publisher,Subscriber}Decorator", "components/delay (Publisher, Message, WithContext, For, Until)", "components/metrics (builder, publisher/subscriber decorators, handler middleware)", "prometheus client (private registry, Gather)", "message.Router (metrics scenario)"}
	stubs := []string{"ScriptedPublisher / ScriptedSubscriber as inner Pub/Sub", "scripted handler outcomes"}
	setup := func(r *Run) simrt.Config {
		c := BaseConfig()
		c.Horizon = 10 * time.Minute
		return c
	}
	Register(&Scenario{Prop: "C20", Name: "publisher-stack", Setup: setup, Body: c20PublisherStack, Real: real, Stubs: stubs, Weight: 3})
	Register(&Scenario{Prop: "C20", Name: "subscriber-stack", Setup: setup, Body: c20SubscriberStack, Real: real, Stubs: stubs, Weight: 2})
	Register(&Scenario{Prop: "C20", Name: "router-metrics", Setup: setup, Body: c20RouterMetrics, Real: real, Stubs: stubs, Weight: 3})
}
