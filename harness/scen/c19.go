package scen

import (
	"context"
	stderrors "errors"
	"fmt"
	"math"
	"sort"
	"strings"
	"sync"
	"time"

	"github.com/pkg/errors"
	"github.com/sony/gobreaker"

	"github.com/ThreeDotsLabs/watermill/components/delay"
	"github.com/ThreeDotsLabs/watermill/message"
	"github.com/ThreeDotsLabs/watermill/message/router/middleware"
	"github.com/ThreeDotsLabs/watermill/verifsim/simrt"
)

// C19 — simple middlewares change only what they document and only during the call.

const (
	mwTimeout = iota
	mwCorrelation
	mwRecoverer
	mwIgnoreErrors
	mwInstantAck
	mwThrottle
	mwDelayOnError
	mwCircuitBreaker
	mwRetry
	mwKinds
)

var mwKindNames = [...]string{"Timeout", "CorrelationID", "Recoverer", "IgnoreErrors", "InstantAck", "Throttle", "DelayOnError", "CircuitBreaker", "Retry"}

var errC19Ignored = stderrors.New("ignored-error")
var errC19Other = stderrors.New("other-error")

type c19Step struct {
	outs   int
	preset []bool // output already carries a correlation id
	errK   int    // 0 nil, 1 ignored, 2 wrapped ignored, 3 other, 4 wraps context.DeadlineExceeded
	panicK int    // 0 none, 1 string, 2 error, 3 nil
	setCtx bool   // the handler replaces the message context by one derived from it (a tracing wrapper adding a value)
}

type c19CtxKey struct{}

type c19Obs struct {
	deadlineSet  bool
	remaining    time.Duration
	ctxErr       error
	ackedAtEntry bool
	at           time.Duration
}

type c19Bare struct {
	script []c19Step
	calls  int
	obs    []c19Obs
	r      *Run
	real   bool
}

func (b *c19Bare) handle(m *message.Message) ([]*message.Message, error) {
	i := b.calls
	b.calls++
	st := c19Step{}
	if i < len(b.script) {
		st = b.script[i]
	}
	o := c19Obs{ackedAtEntry: rawClosed(m.Acked()), ctxErr: m.Context().Err()}
	if dl, ok := m.Context().Deadline(); ok {
		o.deadlineSet = true
		o.remaining = time.Until(dl)
	}
	if b.real {
		o.at = b.r.Sim.Now()
	}
	b.obs = append(b.obs, o)
	if st.setCtx {
		m.SetContext(context.WithValue(m.Context(), c19CtxKey{}, i))
	}
	var outs []*message.Message
	for k := 0; k < st.outs; k++ {
		x := message.NewMessage(fmt.Sprintf("out-%d-%d", i, k), []byte("o"))
		if k < len(st.preset) && st.preset[k] {
			x.Metadata.Set(middleware.CorrelationIDMetadataKey, fmt.Sprintf("preset-%d-%d", i, k))
		}
		outs = append(outs, x)
	}
	switch st.panicK {
	case 1:
		panic(fmt.Sprintf("panic-value-%d", i))
	case 2:
		panic(errC19Other)
	case 3:
		panic(nil)
	}
	switch st.errK {
	case 1:
		return outs, errC19Ignored
	case 2:
		return outs, errors.Wrap(errC19Ignored, "wrapped")
	case 3:
		return outs, errC19Other
	case 4:
		// a time-out further down, reported while the message's own context is alive
		return outs, fmt.Errorf("downstream call %d: %w", i, context.DeadlineExceeded)
	}
	return outs, nil
}

// ---- reference middlewares (documented effect only) ---------------------------

type refPanic struct{ v any }

func (p refPanic) Error() string { return fmt.Sprintf("recovered panic: %v", p.v) }

type c19DelayCfg struct {
	initial, max time.Duration
	mult         float64
}

func c19Ref(kind int, h message.HandlerFunc, dcfg c19DelayCfg, maxRetries int, refDelay *int, retryExhausted *bool) message.HandlerFunc {
	switch kind {
	case mwCorrelation:
		return func(m *message.Message) ([]*message.Message, error) {
			outs, err := h(m)
			id := m.Metadata.Get(middleware.CorrelationIDMetadataKey)
			for _, o := range outs {
				if o.Metadata.Get(middleware.CorrelationIDMetadataKey) == "" {
					o.Metadata.Set(middleware.CorrelationIDMetadataKey, id)
				}
			}
			return outs, err
		}
	case mwRecoverer:
		return func(m *message.Message) (outs []*message.Message, err error) {
			panicked := true
			defer func() {
				if v := recover(); v != nil || panicked {
					outs, err = nil, refPanic{v}
				}
			}()
			outs, err = h(m)
			panicked = false
			return
		}
	case mwIgnoreErrors:
		return func(m *message.Message) ([]*message.Message, error) {
			outs, err := h(m)
			if err != nil && errors.Cause(err).Error() == errC19Ignored.Error() {
				return outs, nil
			}
			return outs, err
		}
	case mwInstantAck:
		return func(m *message.Message) ([]*message.Message, error) {
			m.Ack()
			return h(m)
		}
	case mwDelayOnError:
		return func(m *message.Message) ([]*message.Message, error) {
			outs, err := h(m)
			if err != nil {
				*refDelay++ // k-th consecutive failure seen by this middleware
			}
			return outs, err
		}
	case mwRetry:
		return func(m *message.Message) ([]*message.Message, error) {
			outs, err := h(m)
			for i := 0; i < maxRetries && err != nil; i++ {
				outs, err = h(m)
			}
			if err != nil {
				*retryExhausted = true
				return nil, err
			}
			return outs, nil
		}
	}
	return h // Timeout, Throttle, CircuitBreaker: no effect on the result
}

func c19Classify(err error) string {
	if err == nil {
		return ""
	}
	var rp middleware.RecoveredPanicError
	if stderrors.As(err, &rp) {
		return "recovered-panic:" + fmt.Sprint(rp.V)
	}
	if c, ok := errors.Cause(err).(middleware.RecoveredPanicError); ok {
		return "recovered-panic:" + fmt.Sprint(c.V)
	}
	var rpp *middleware.RecoveredPanicError
	if stderrors.As(err, &rpp) && rpp != nil {
		return "recovered-panic:" + fmt.Sprint(rpp.V)
	}
	var p refPanic
	if stderrors.As(err, &p) {
		return "recovered-panic:" + fmt.Sprint(p.v)
	}
	return "error:" + err.Error()
}

// c19SameErr: the same outcome up to wrapping — equal classes, or the reference error is carried (errors.Is / its text
// is contained), or for a recovered panic the panic value is carried in the error's text.
func c19SameErr(real, ref error) bool {
	a, b := c19Classify(real), c19Classify(ref)
	if a == b {
		return true
	}
	if real == nil || ref == nil {
		return false
	}
	if strings.HasPrefix(b, "recovered-panic:") {
		return strings.Contains(real.Error(), strings.TrimPrefix(b, "recovered-panic:"))
	}
	if strings.HasPrefix(a, "recovered-panic:") {
		return false
	}
	return stderrors.Is(real, ref) || strings.Contains(real.Error(), ref.Error())
}

func c19Outs(outs []*message.Message) string {
	var s []string
	for _, o := range outs {
		s = append(s, o.UUID+"["+o.Metadata.Get(middleware.CorrelationIDMetadataKey)+"]")
	}
	return strings.Join(s, ",")
}

func c19StackBody(r *Run) {
	t := r.T
	depth := 1 + t.Int(3)
	var kinds []int
	for i := 0; i < depth; i++ {
		kinds = append(kinds, t.Int(mwKinds))
	}
	maxRetries := 1 + t.Int(3)
	timeout := time.Duration(50+t.Int(500)) * time.Millisecond
	dcfg := c19DelayCfg{initial: time.Duration(1+t.Int(1000)) * time.Millisecond, mult: 1 + float64(t.Int(31))/10}
	dcfg.max = dcfg.initial * time.Duration(1+t.Int(20))
	presentations := 1 + t.Int(4)
	var script []c19Step
	for i := 0; i < 24; i++ {
		st := c19Step{outs: t.Int(3), setCtx: t.Chance(1, 5)}
		for k := 0; k < st.outs; k++ {
			st.preset = append(st.preset, t.Chance(1, 3))
		}
		switch t.Int(6) {
		case 0, 1:
			st.errK = 1 + t.Int(4)
		case 2:
			st.panicK = 1 + t.Int(3)
		}
		script = append(script, st)
	}
	withCorr := t.Chance(2, 3)
	var names []string
	for _, k := range kinds {
		names = append(names, mwKindNames[k])
	}
	r.Describe("stack (outermost first): %s around a scripted handler; Retry{MaxRetries:%d, 1ms} Timeout(%v) DelayOnError{%v x%.1f max %v}; %d presentations of one message; script %v", strings.Join(names, " > "), maxRetries, timeout, dcfg.initial, dcfg.mult, dcfg.max, presentations, script[:8])

	realBare := &c19Bare{script: script, r: r, real: true}
	refBare := &c19Bare{script: script, r: r}
	realH := message.HandlerFunc(realBare.handle)
	refH := message.HandlerFunc(refBare.handle)
	refDelayCount := 0
	retryExhausted := false // a reference Retry ran out of attempts during the current presentation
	hasTimeout, hasInstantAck, hasDelay := false, false, false
	for i := len(kinds) - 1; i >= 0; i-- {
		k := kinds[i]
		switch k {
		case mwTimeout:
			realH = middleware.Timeout(timeout)(realH)
			hasTimeout = true
		case mwCorrelation:
			realH = middleware.CorrelationID(realH)
		case mwRecoverer:
			realH = middleware.Recoverer(realH)
		case mwIgnoreErrors:
			realH = middleware.NewIgnoreErrors([]error{errC19Ignored}).Middleware(realH)
		case mwInstantAck:
			realH = middleware.InstantAck(realH)
			hasInstantAck = true
		case mwThrottle:
			realH = middleware.NewThrottle(1000, time.Second).Middleware(realH)
		case mwDelayOnError:
			d := &middleware.DelayOnError{InitialInterval: dcfg.initial, MaxInterval: dcfg.max, Multiplier: dcfg.mult}
			realH = d.Middleware(realH)
			hasDelay = true
		case mwCircuitBreaker:
			cb := middleware.NewCircuitBreaker(gobreaker.Settings{Name: "cb", ReadyToTrip: func(gobreaker.Counts) bool { return false }})
			realH = cb.Middleware(realH)
		case mwRetry:
			realH = middleware.Retry{MaxRetries: maxRetries, InitialInterval: time.Millisecond, MaxInterval: 2 * time.Millisecond, Multiplier: 1.5}.Middleware(realH)
		}
		refH = c19Ref(k, refH, dcfg, maxRetries, &refDelayCount, &retryExhausted)
	}
	// DelayOnError may appear several times in one stack; the reference then counts one bump per layer, like the real one multiplies once per layer.
	realMsg := message.NewMessage("consumed", []byte("p"))
	refMsg := message.NewMessage("consumed", []byte("p"))
	if withCorr {
		realMsg.Metadata.Set(middleware.CorrelationIDMetadataKey, "corr-1")
		refMsg.Metadata.Set(middleware.CorrelationIDMetadataKey, "corr-1")
	}
	base, cancelBase := context.WithCancel(context.Background())
	defer cancelBase()
	realMsg.SetContext(base)
	refMsg.SetContext(base)

	for p := 0; p < presentations; p++ {
		obsFrom := len(realBare.obs)
		var rOuts, fOuts []*message.Message
		var rErr, fErr error
		retryExhausted = false
		rpv, rpan := Call(func() { rOuts, rErr = realH(realMsg) })
		fpv, fpan := Call(func() { fOuts, fErr = refH(refMsg) })
		what := fmt.Sprintf("presentation %d of stack %s", p+1, strings.Join(names, " > "))
		if rpan != fpan {
			if rpan {
				r.Fail("C19.R1", "a panic escaped the middleware stack although the reference stack contains it", "%s: %v", what, rpv)
			} else {
				r.Fail("C19.R1", "the middleware stack swallowed a panic that should escape", "%s: reference panics with %v", what, fpv)
			}
			return
		}
		if rpan {
			if fmt.Sprint(rpv) != fmt.Sprint(fpv) {
				r.Fail("C19.R1", "the escaping panic value was changed", "%s: %v vs %v", what, rpv, fpv)
			}
			r.Probe("panic-escapes-in-both")
		} else {
			if !c19SameErr(rErr, fErr) {
				sig := "the stack's error differs from the bare handler's plus the documented effects"
				if strings.HasPrefix(c19Classify(fErr), "recovered-panic") || strings.HasPrefix(c19Classify(rErr), "recovered-panic") {
					sig = "a recovered panic does not carry the panic value"
				}
				r.Fail("C19.R2", sig, "%s: got %q, reference %q", what, c19Classify(rErr), c19Classify(fErr))
			}
			// (what Retry hands back together with its final error is not specified: such outputs are never published)
			if retryExhausted {
				r.Probe("retry-exhausted-in-stack")
			} else if c19Outs(rOuts) != c19Outs(fOuts) {
				sig := "the stack's outputs differ from the bare handler's plus the documented effects"
				r.Fail("C19.R2", sig, "%s: got [%s], reference [%s]", what, c19Outs(rOuts), c19Outs(fOuts))
			}
		}
		if realBare.calls != refBare.calls {
			sig := "the handler was invoked a different number of times than the documented semantics give"
			for _, k := range kinds {
				if k == mwRetry {
					sig = "Retry's attempt count changed by composing it with another middleware"
				}
			}
			r.Fail("C19.R3", sig, "%s: %d invocations, reference %d", what, realBare.calls, refBare.calls)
			return
		}
		// effects during the call
		for _, o := range realBare.obs[obsFrom:] {
			if hasTimeout {
				if !o.deadlineSet || o.remaining > timeout || o.remaining <= 0 {
					r.Fail("C19.R4", "Timeout: no (or a wrong) deadline visible during the call", "%s: deadlineSet=%v remaining=%v timeout=%v", what, o.deadlineSet, o.remaining, timeout)
				}
			} else if o.deadlineSet {
				r.Fail("C19.R4", "a deadline is visible although no Timeout is in the stack", "%s", what)
			}
			if o.ctxErr != nil {
				r.Fail("C19.R5", "the handler was invoked with an already cancelled message context", "%s: %v", what, o.ctxErr)
			}
			if hasInstantAck && !o.ackedAtEntry {
				r.Fail("C19.R4", "InstantAck: message not acked before the handler ran", "%s", what)
			}
		}
		// the effect ends with the call
		if e := realMsg.Context().Err(); e != nil {
			r.Fail("C19.R5", "the message context is left cancelled after the call", "%s: %v", what, e)
		}
		if _, has := realMsg.Context().Deadline(); has {
			r.Fail("C19.R5", "the message context still carries the Timeout's deadline after the call", "%s", what)
		}
		if hasDelay {
			got := realMsg.Metadata.Get(delay.DelayedForKey)
			if refDelayCount == 0 {
				if got != "" {
					r.Fail("C19.R6", "DelayOnError stamped a delay although no failure passed through it", "%s: %q", what, got)
				}
			} else {
				want := math.Min(float64(dcfg.initial)*math.Pow(dcfg.mult, float64(refDelayCount-1)), float64(dcfg.max))
				gd, perr := time.ParseDuration(got)
				if perr != nil || math.Abs(float64(gd)-want) > want*0.001+1000 {
					r.Fail("C19.R6", "DelayOnError: delay after the k-th consecutive failure is not min(Initial x Multiplier^(k-1), Max)", "%s: k=%d got %q, expected %v (Initial %v, Multiplier %.1f, Max %v)", what, refDelayCount, got, time.Duration(want), dcfg.initial, dcfg.mult, dcfg.max)
				}
			}
		}
		if rpan {
			return
		}
	}
	// afterwards the message's context is its owner's again: when the owner cancels it, the message sees that
	r.Fault("context-cancel")
	cancelBase()
	if realMsg.Context().Err() == nil {
		r.Fail("C19.R5", "after passing through the stack the message no longer follows its owner's context (cancelling it has no effect on the message)", "stack %s", strings.Join(names, " > "))
	}
}

func c19DelayBody(r *Run) {
	t := r.T
	initial := time.Duration(1+t.Int(2000)) * time.Millisecond
	mult := 1 + float64(t.Int(41))/20 // 1.00 .. 3.00 in steps of 0.05
	max := time.Duration(float64(initial) * (1 + float64(t.Int(400))/10))
	fails := 1 + t.Int(10)
	d := &middleware.DelayOnError{InitialInterval: initial, MaxInterval: max, Multiplier: mult}
	r.Describe("DelayOnError{Initial:%v Multiplier:%.2f Max:%v}, %d consecutive failures then a success on one message", initial, mult, max, fails)
	n := 0
	h := d.Middleware(func(m *message.Message) ([]*message.Message, error) {
		n++
		if n <= fails {
			return nil, errC19Other
		}
		return []*message.Message{message.NewMessage("o", nil)}, nil
	})
	msg := message.NewMessage("m", nil)
	// a third of the runs: from some failure on the message arrives with a context that has already ended (its deadline
	// passed, the subscription is closing): a failure all the same, the k-th one gets the k-th delay
	deadFrom := 0
	if t.Chance(1, 3) {
		deadFrom = 1 + t.Int(fails)
	}
	for k := 1; k <= fails+1; k++ {
		if k == deadFrom {
			cctx, ccancel := context.WithCancel(context.Background())
			ccancel()
			msg.SetContext(cctx)
			r.Fault("message-context-ended")
		}
		before := msg.Metadata.Get(delay.DelayedForKey)
		now := time.Now().UTC()
		outs, err := h(msg)
		if k <= fails {
			if err != errC19Other || len(outs) != 0 {
				r.Fail("C19.R2", "DelayOnError changed the handler's result", "call %d: %v %d", k, err, len(outs))
			}
			want := math.Min(float64(initial)*math.Pow(mult, float64(k-1)), float64(max))
			got, perr := time.ParseDuration(msg.Metadata.Get(delay.DelayedForKey))
			if perr != nil || math.Abs(float64(got)-want) > want*0.001+1000 {
				r.Fail("C19.R6", "DelayOnError: delay after the k-th consecutive failure is not min(Initial x Multiplier^(k-1), Max)", "k=%d got %q, expected %v (Initial %v, Multiplier %.2f, Max %v)", k, msg.Metadata.Get(delay.DelayedForKey), time.Duration(want), initial, mult, max)
				return
			}
			// (C19 speaks about the delay only; a delayed-until stamp, when there is one, must agree with it)
			until, uerr := time.Parse(time.RFC3339, msg.Metadata.Get(delay.DelayedUntilKey))
			if msg.Metadata.Get(delay.DelayedUntilKey) == "" {
				r.Probe("delay-on-error-without-delayed-until")
			} else if uerr != nil || until.Sub(now.Add(got)) >= time.Second || now.Add(got).Sub(until) >= time.Second {
				r.Fail("C19.R6", "DelayOnError: delayed-until and delayed-for disagree", "k=%d until=%v for=%v now=%v", k, msg.Metadata.Get(delay.DelayedUntilKey), got, now)
			}
		} else {
			if err != nil || len(outs) != 1 {
				r.Fail("C19.R2", "DelayOnError changed a successful result", "%v %d", err, len(outs))
			}
			if msg.Metadata.Get(delay.DelayedForKey) != before {
				r.Fail("C19.R6", "DelayOnError touched the delay of a successfully handled message", "%q -> %q", before, msg.Metadata.Get(delay.DelayedForKey))
			}
		}
		time.Sleep(time.Duration(t.Int(3)) * time.Second)
	}
}

func c19ThrottleBody(r *Run) {
	t := r.T
	count := int64(1 + t.Int(20))
	dur := time.Duration(1+t.Int(10)) * 100 * time.Millisecond
	interval := dur / time.Duration(count)
	nG := 1 + t.Skewed(6)
	per := 1 + t.Int(5)
	r.Describe("Throttle(%d per %v => interval %v), %d concurrent callers x %d messages", count, dur, interval, nG, per)
	th := middleware.NewThrottle(count, dur)
	// nobody calls for a while (also right after the middleware was built): unused time must not turn into a burst later
	if idle := t.Int(8); idle > 0 {
		time.Sleep(time.Duration(idle) * 2 * interval)
	}
	idleMid := t.Int(8)
	var starts []time.Duration
	gaveUp := 0
	h := th.Middleware(func(m *message.Message) ([]*message.Message, error) {
		starts = append(starts, r.Sim.Now())
		return []*message.Message{m}, nil
	})
	// the rate must hold whatever happens to the message context while Throttle waits
	ctxMode := t.Int(4) // 0 plain, 1 Timeout shorter than the interval around Throttle, 2 already cancelled context, 3 cancelled while waiting
	if ctxMode == 1 {
		h = middleware.Timeout(interval / 4)(h)
	}
	r.Describe("message context mode %d (0 plain, 1 Timeout(interval/4) around Throttle, 2 cancelled before the call, 3 cancelled during the wait)", ctxMode)
	var wg sync.WaitGroup
	for g := 0; g < nG; g++ {
		wg.Add(1)
		g := g
		go func() {
			defer wg.Done()
			time.Sleep(time.Duration(g) * interval / 3)
			for i := 0; i < per; i++ {
				if i == per/2 && idleMid > 0 {
					time.Sleep(time.Duration(idleMid) * 2 * interval) // every caller pauses half-way
				}
				m := message.NewMessage(fmt.Sprintf("g%d-%d", g, i), nil)
				switch ctxMode {
				case 2:
					cctx, ccancel := context.WithCancel(context.Background())
					ccancel()
					m.SetContext(cctx)
					r.Fault("context-cancel")
				case 3:
					cctx, ccancel := context.WithCancel(context.Background())
					m.SetContext(cctx)
					go func() {
						time.Sleep(interval / 3)
						r.Fault("context-cancel")
						ccancel()
					}()
				}
				before := len(starts)
				outs, err := h(m)
				if ctxMode != 0 && err != nil && len(starts) == before && (stderrors.Is(err, context.Canceled) || stderrors.Is(err, context.DeadlineExceeded)) {
					// the message context ended while (or before) Throttle waited: giving up without starting the
					// handler keeps the rate
					gaveUp++
					r.Probe("throttle-gave-up-on-ended-context")
					continue
				}
				if err != nil || len(outs) != 1 || outs[0] != m {
					r.Fail("C19.R2", "Throttle changed the handler's result", "%v", err)
				}
			}
		}()
	}
	wg.Wait()
	sort.Slice(starts, func(i, j int) bool { return starts[i] < starts[j] })
	for i := range starts {
		for j := i + 1; j < len(starts); j++ {
			n := j - i + 1
			if time.Duration(n-2)*interval > starts[j]-starts[i] {
				r.Fail("C19.R7", "Throttle let handlers start faster than the configured rate", "%d handler starts within %v, interval %v (starts %v)", n, starts[j]-starts[i], interval, starts)
				return
			}
		}
	}
	if len(starts) != nG*per-gaveUp {
		r.Fail("C19.R7", "Throttle lost a call", "%d starts, expected %d", len(starts), nG*per-gaveUp)
	}
}


// c19ConcurrentBody: ONE instance of a middleware stack serves several messages at the same time (as a router-level
// middleware does for all handlers and all messages in flight); every message must get exactly what the reference
// gives it on its own. Throttle and CircuitBreaker, which share state between messages by design, stay out.
func c19ConcurrentBody(r *Run) {
	t := r.T
	allowed := []int{mwTimeout, mwCorrelation, mwRecoverer, mwIgnoreErrors, mwInstantAck, mwDelayOnError, mwRetry}
	depth := 1 + t.Int(3)
	var kinds []int
	var names []string
	for i := 0; i < depth; i++ {
		k := allowed[t.Int(len(allowed))]
		kinds = append(kinds, k)
		names = append(names, mwKindNames[k])
	}
	maxRetries := 1 + t.Int(3)
	timeout := time.Duration(50+t.Int(500)) * time.Millisecond
	dcfg := c19DelayCfg{initial: time.Duration(1+t.Int(1000)) * time.Millisecond, mult: 1 + float64(t.Int(31))/10}
	dcfg.max = dcfg.initial * time.Duration(1+t.Int(20))
	nMsgs := 2 + t.Int(3)
	presentations := 1 + t.Int(3)
	type mstate struct {
		uuid     string
		corr     string
		real     *c19Bare
		ref      *c19Bare
		refH     message.HandlerFunc
		refDelay int
		exhaust  bool
		msg      *message.Message
		refMsg   *message.Message
		results  []func() // deferred comparisons, run at the end in the root goroutine
	}
	states := map[string]*mstate{}
	var list []*mstate
	for i := 0; i < nMsgs; i++ {
		var script []c19Step
		for k := 0; k < 12; k++ {
			st := c19Step{outs: t.Int(3), setCtx: t.Chance(1, 5)}
			for j := 0; j < st.outs; j++ {
				st.preset = append(st.preset, t.Chance(1, 3))
			}
			switch t.Int(6) {
			case 0, 1:
				st.errK = 1 + t.Int(4)
			case 2:
				st.panicK = 1 + t.Int(3)
			}
			script = append(script, st)
		}
		ms := &mstate{uuid: fmt.Sprintf("msg-%d", i), real: &c19Bare{script: script, r: r, real: true}, ref: &c19Bare{script: script, r: r}}
		if t.Chance(2, 3) {
			ms.corr = fmt.Sprintf("corr-%d", i)
		}
		states[ms.uuid] = ms
		list = append(list, ms)
	}
	r.Describe("ONE stack instance (outermost first) %s serves %d messages concurrently, %d presentations each", strings.Join(names, " > "), nMsgs, presentations)
	// the shared real stack: the bare handler finds its message's own script
	realH := message.HandlerFunc(func(m *message.Message) ([]*message.Message, error) {
		time.Sleep(time.Millisecond) // the calls overlap
		return states[m.UUID].real.handle(m)
	})
	hasTimeout, hasInstantAck := false, false
	for i := len(kinds) - 1; i >= 0; i-- {
		switch kinds[i] {
		case mwTimeout:
			realH = middleware.Timeout(timeout)(realH)
			hasTimeout = true
		case mwCorrelation:
			realH = middleware.CorrelationID(realH)
		case mwRecoverer:
			realH = middleware.Recoverer(realH)
		case mwIgnoreErrors:
			realH = middleware.NewIgnoreErrors([]error{errC19Ignored}).Middleware(realH)
		case mwInstantAck:
			realH = middleware.InstantAck(realH)
			hasInstantAck = true
		case mwDelayOnError:
			d := &middleware.DelayOnError{InitialInterval: dcfg.initial, MaxInterval: dcfg.max, Multiplier: dcfg.mult}
			realH = d.Middleware(realH)
		case mwRetry:
			realH = middleware.Retry{MaxRetries: maxRetries, InitialInterval: time.Millisecond, MaxInterval: 2 * time.Millisecond, Multiplier: 1.5}.Middleware(realH)
		}
	}
	for _, ms := range list {
		ms := ms
		ms.refH = ms.ref.handle
		for i := len(kinds) - 1; i >= 0; i-- {
			ms.refH = c19Ref(kinds[i], ms.refH, dcfg, maxRetries, &ms.refDelay, &ms.exhaust)
		}
		ms.msg = message.NewMessage(ms.uuid, []byte("p"))
		ms.refMsg = message.NewMessage(ms.uuid, []byte("p"))
		if ms.corr != "" {
			ms.msg.Metadata.Set(middleware.CorrelationIDMetadataKey, ms.corr)
			ms.refMsg.Metadata.Set(middleware.CorrelationIDMetadataKey, ms.corr)
		}
	}
	var wg sync.WaitGroup
	overlapped := false
	inFlight := 0
	for _, ms := range list {
		ms := ms
		wg.Add(1)
		go func() {
			defer wg.Done()
			for p := 0; p < presentations; p++ {
				p := p
				obsFrom := len(ms.real.obs)
				var rOuts []*message.Message
				var rErr error
				inFlight++
				if inFlight > 1 {
					overlapped = true
				}
				rpv, rpan := Call(func() { rOuts, rErr = realH(ms.msg) })
				inFlight--
				ctxErrAfter := ms.msg.Context().Err()
				_, deadlineAfter := ms.msg.Context().Deadline()
				obs := append([]c19Obs(nil), ms.real.obs[obsFrom:]...)
				realCalls := ms.real.calls
				ms.results = append(ms.results, func() {
					what := fmt.Sprintf("message %s, presentation %d, through ONE stack %s shared by %d concurrent messages", ms.uuid, p+1, strings.Join(names, " > "), nMsgs)
					var fOuts []*message.Message
					var fErr error
					ms.exhaust = false
					fpv, fpan := Call(func() { fOuts, fErr = ms.refH(ms.refMsg) })
					if rpan != fpan {
						r.Fail("C19.R1", "with several messages in one stack a panic escaped (or was swallowed) unlike for a message on its own", "%s: real panic=%v (%v), reference panic=%v (%v)", what, rpan, rpv, fpan, fpv)
						return
					}
					if rpan {
						if fmt.Sprint(rpv) != fmt.Sprint(fpv) {
							r.Fail("C19.R1", "with several messages in one stack the escaping panic value was changed", "%s: %v vs %v", what, rpv, fpv)
						}
						return
					}
					if !c19SameErr(rErr, fErr) {
						r.Fail("C19.R2", "with several messages in one stack a message got another error than on its own", "%s: got %q, reference %q", what, c19Classify(rErr), c19Classify(fErr))
					}
					if !ms.exhaust && c19Outs(rOuts) != c19Outs(fOuts) {
						r.Fail("C19.R2", "with several messages in one stack a message got other outputs than on its own", "%s: got [%s], reference [%s]", what, c19Outs(rOuts), c19Outs(fOuts))
					}
					if realCalls != ms.ref.calls {
						r.Fail("C19.R3", "with several messages in one stack a message's handler was invoked a different number of times than on its own", "%s: %d invocations, reference %d", what, realCalls, ms.ref.calls)
					}
					for _, o := range obs {
						if hasTimeout && (!o.deadlineSet || o.remaining > timeout || o.remaining <= 0) {
							r.Fail("C19.R4", "Timeout: no (or a wrong) deadline visible during the call", "%s: deadlineSet=%v remaining=%v timeout=%v", what, o.deadlineSet, o.remaining, timeout)
						}
						if o.ctxErr != nil {
							r.Fail("C19.R5", "the handler was invoked with an already cancelled message context", "%s: %v", what, o.ctxErr)
						}
						if hasInstantAck && !o.ackedAtEntry {
							r.Fail("C19.R4", "InstantAck: message not acked before the handler ran", "%s", what)
						}
					}
					if ctxErrAfter != nil {
						r.Fail("C19.R5", "the message context is left cancelled after the call", "%s: %v", what, ctxErrAfter)
					}
					if deadlineAfter {
						r.Fail("C19.R5", "the message context still carries the Timeout's deadline after the call", "%s", what)
					}
				})
			}
		}()
	}
	wg.Wait()
	if overlapped {
		r.Probe("messages-overlapped-in-one-stack")
	}
	for _, ms := range list {
		for _, f := range ms.results {
			f()
		}
		// the delay stamped on a message counts that message's own consecutive failures
		got := ms.msg.Metadata.Get(delay.DelayedForKey)
		if ms.refDelay == 0 {
			if got != "" {
				r.Fail("C19.R6", "DelayOnError stamped a delay on a message none of whose attempts failed", "%s: %q", ms.uuid, got)
			}
		} else if gd, perr := time.ParseDuration(got); perr == nil {
			want := math.Min(float64(dcfg.initial)*math.Pow(dcfg.mult, float64(ms.refDelay-1)), float64(dcfg.max))
			if math.Abs(float64(gd)-want) > want*0.001+1000 {
				r.Fail("C19.R6", "DelayOnError: with several messages in flight a message's delay does not count its own consecutive failures", "%s: k=%d got %q, expected %v", ms.uuid, ms.refDelay, got, time.Duration(want))
			}
		} else {
			r.Fail("C19.R6", "DelayOnError: a failed message carries no delay", "%s: %q", ms.uuid, got)
		}
	}
}

func init() {
	real := []string{"middleware.Timeout, CorrelationID, Recoverer, IgnoreErrors, InstantAck, Throttle, DelayOnError, CircuitBreaker (sony/gobreaker), Retry (cenkalti/backoff)", "components/delay.Message"}
	stubs := []string{"scripted bare handler", "reference implementations of the documented effects (the oracle)"}
	setup := func(r *Run) simrt.Config {
		c := BaseConfig()
		c.Horizon = time.Minute
		return c
	}
	Register(&Scenario{Prop: "C19", Name: "stack-vs-reference", Setup: setup, Body: c19StackBody, Real: real, Stubs: stubs, Weight: 6})
	Register(&Scenario{Prop: "C19", Name: "delay-on-error-arithmetic", Setup: setup, Body: c19DelayBody, Real: real, Stubs: stubs, Weight: 2})
	Register(&Scenario{Prop: "C19", Name: "throttle-rate", Setup: setup, Body: c19ThrottleBody, Real: real, Stubs: stubs, Weight: 1})
	Register(&Scenario{Prop: "C19", Name: "one-stack-concurrent-messages", Setup: setup, Body: c19ConcurrentBody, Real: real, Stubs: stubs, Weight: 2})
}
