package scen

import (
	"context"
	"fmt"
	"time"

	"github.com/ThreeDotsLabs/watermill/message"
	"github.com/ThreeDotsLabs/watermill/pubsub/gochannel"
	"github.com/ThreeDotsLabs/watermill/verifsim/simrt"
)

// C11 with a long history: more than a thousand messages in the log, a subscription that never reads beside one that
// acks at once, and a subscription that arrives when the log is already long. Limits inside the implementation (a bounded
// number of senders, a bounded replay batch) must not cost the reading subscriptions a message or give them one twice.
func c11LongHistory(r *Run) {
	t := r.T
	n := 1030 + t.Int(200)
	stalled := t.Chance(2, 3)
	stalledFirst := t.Chance(1, 2)
	lateAt := t.Int(n + 1)
	if t.Chance(1, 2) {
		lateAt = 1025 + t.Int(n-1024) // the log is already longer than a thousand messages when the late subscriber arrives
	}
	r.Describe("persistent GoChannel, %d messages; a subscription that never reads=%v (subscribed first=%v); one subscription from the start, one subscribing after %d messages, both ack at once", n, stalled, stalledFirst, lateAt)
	ps := gochannel.NewGoChannel(gochannel.Config{Persistent: true, OutputChannelBuffer: int64(simrt.Pick(t, 0, 1, 16))}, nil)
	ctx := context.Background()
	got := map[string]map[string]int{}
	reader := func(name string) bool {
		ch, err := ps.Subscribe(ctx, "t")
		if err != nil {
			r.HarnessErr = err.Error()
			return false
		}
		got[name] = map[string]int{}
		go func() {
			for m := range ch {
				got[name][m.UUID]++
				m.Ack()
			}
		}()
		return true
	}
	if stalled && stalledFirst {
		if _, err := ps.Subscribe(ctx, "t"); err != nil {
			r.HarnessErr = err.Error()
			return
		}
		r.Fault("subscriber-never-reads")
	}
	if !reader("early") {
		return
	}
	if stalled && !stalledFirst {
		if _, err := ps.Subscribe(ctx, "t"); err != nil {
			r.HarnessErr = err.Error()
			return
		}
		r.Fault("subscriber-never-reads")
	}
	published := 0
	for i := 0; i < n; i++ {
		if i == lateAt {
			if !reader("late") {
				return
			}
		}
		if err := ps.Publish("t", message.NewMessage(fmt.Sprintf("m%d", i), nil)); err == nil {
			published++
		}
	}
	if lateAt == n {
		if !reader("late") {
			return
		}
	}
	r.Sim.Quiesce()
	for name, g := range got {
		for i := 0; i < n; i++ {
			switch c := g[fmt.Sprintf("m%d", i)]; {
			case c == 0:
				r.Fail("C11.R1", "a persistent subscription missed a successfully published message", "long history: subscription %q never received m%d of %d (a never-reading sibling=%v)", name, i, n, stalled)
				return
			case c > 1:
				r.Fail("C11.R2", "a persistent subscription received (and acked) a message more than once", "long history: subscription %q received m%d %d times", name, i, c)
				return
			}
		}
	}
	_ = published
	ps.Close()
}

func init() {
	Register(&Scenario{Prop: "C11", Name: "long-history", Setup: func(r *Run) simrt.Config {
		c := BaseConfig()
		c.Horizon = time.Minute
		c.StepCap = 2000000
		return c
	}, Body: c11LongHistory, Real: gcReal, Stubs: gcStubs, Weight: 1})
}
