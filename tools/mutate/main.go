// mutate enumerates small syntactic mutants of one Go file (for the sensitivity campaign of /verif):
//   negate-if, ack<->nack, drop-call (statement calls such as Lock/Unlock/Done/cancel/close/Ack/Nack), drop-defer,
//   drop-select-case, return-nil-instead-of-err, drop-assign-zero (skip `x = y` statements), off-by-one on integer literals in conditions.
// usage: mutate -file path/to/file.go -out dir   -> dir/<n>.go and dir/index.tsv
package main

import (
	"bytes"
	"flag"
	"fmt"
	"go/ast"
	"go/format"
	"go/parser"
	"go/token"
	"os"
	"path/filepath"
	"strings"
)

type mutant struct {
	op   string
	line int
	desc string
	// apply mutates a freshly parsed copy of the file; site index identifies the node
	site int
}

func main() {
	file := flag.String("file", "", "")
	out := flag.String("out", "", "")
	flag.Parse()
	src, err := os.ReadFile(*file)
	if err != nil {
		panic(err)
	}
	os.MkdirAll(*out, 0o755)
	var index []string
	n := 0
	for _, op := range []string{"negate-if", "ack-nack", "drop-call", "drop-defer", "drop-select-case", "return-nil", "drop-assign"} {
		for site := 0; ; site++ {
			fset := token.NewFileSet()
			f, err := parser.ParseFile(fset, *file, src, parser.ParseComments)
			if err != nil {
				panic(err)
			}
			line, desc, ok := apply(fset, f, op, site)
			if !ok {
				break
			}
			var buf bytes.Buffer
			if err := format.Node(&buf, fset, f); err != nil {
				continue
			}
			if bytes.Equal(buf.Bytes(), src) {
				continue
			}
			n++
			os.WriteFile(filepath.Join(*out, fmt.Sprintf("%d.go", n)), buf.Bytes(), 0o644)
			index = append(index, fmt.Sprintf("%d\t%s\t%d\t%s", n, op, line, strings.ReplaceAll(desc, "\t", " ")))
		}
	}
	os.WriteFile(filepath.Join(*out, "index.tsv"), []byte(strings.Join(index, "\n")+"\n"), 0o644)
	fmt.Printf("%s: %d mutants\n", *file, n)
}

func exprString(fset *token.FileSet, n ast.Node) string {
	var b bytes.Buffer
	format.Node(&b, fset, n)
	s := b.String()
	s = strings.Join(strings.Fields(s), " ")
	if len(s) > 90 {
		s = s[:90] + "…"
	}
	return s
}

func isLogCall(fset *token.FileSet, c *ast.CallExpr) bool {
	s := exprString(fset, c.Fun)
	return strings.Contains(s, "logger.") || strings.Contains(s, "Logger.") || strings.HasPrefix(s, "log.")
}

func interestingCall(fset *token.FileSet, c *ast.CallExpr) bool {
	s := exprString(fset, c.Fun)
	for _, suf := range []string{".Lock", ".Unlock", ".RLock", ".RUnlock", ".Done", ".Add", ".Wait", ".Ack", ".Nack", ".Close", ".Stop", ".SetContext", ".Set", ".Reset"} {
		if strings.HasSuffix(s, suf) {
			return true
		}
	}
	switch s {
	case "close", "cancel", "cancelCtx", "delete":
		return true
	}
	return strings.HasSuffix(s, "cancel") || strings.HasSuffix(s, "stopFn")
}

// apply performs the site-th mutation of kind op; returns false when there is no such site.
func apply(fset *token.FileSet, f *ast.File, op string, site int) (int, string, bool) {
	count := -1
	line, desc := 0, ""
	done := false
	hit := func(n ast.Node, d string) bool {
		count++
		if count == site {
			line, desc, done = fset.Position(n.Pos()).Line, d, true
			return true
		}
		return false
	}
	// statement-list based mutations need the parent list
	var visitList func(list []ast.Stmt) []ast.Stmt
	visitList = func(list []ast.Stmt) []ast.Stmt {
		if done {
			return list
		}
		for i, s := range list {
			if done {
				break
			}
			switch op {
			case "drop-call":
				if es, ok := s.(*ast.ExprStmt); ok {
					if c, ok := es.X.(*ast.CallExpr); ok && !isLogCall(fset, c) && interestingCall(fset, c) {
						if hit(s, "removed: "+exprString(fset, s)) {
							return append(append([]ast.Stmt{}, list[:i]...), list[i+1:]...)
						}
					}
				}
			case "drop-defer":
				if ds, ok := s.(*ast.DeferStmt); ok && !isLogCall(fset, ds.Call) {
					if hit(s, "removed: "+exprString(fset, s)) {
						return append(append([]ast.Stmt{}, list[:i]...), list[i+1:]...)
					}
				}
			case "drop-assign":
				if as, ok := s.(*ast.AssignStmt); ok && as.Tok == token.ASSIGN && len(as.Lhs) == 1 {
					if _, isIdent := as.Lhs[0].(*ast.Ident); !isIdent { // field / index assignments: state updates
						if hit(s, "removed: "+exprString(fset, s)) {
							return append(append([]ast.Stmt{}, list[:i]...), list[i+1:]...)
						}
					}
				}
			}
		}
		return list
	}
	ast.Inspect(f, func(n ast.Node) bool {
		if done {
			return false
		}
		switch x := n.(type) {
		case *ast.BlockStmt:
			x.List = visitList(x.List)
		case *ast.CaseClause:
			x.Body = visitList(x.Body)
		case *ast.CommClause:
			x.Body = visitList(x.Body)
		case *ast.IfStmt:
			if op == "negate-if" {
				if hit(x, "negated: if "+exprString(fset, x.Cond)) {
					x.Cond = &ast.UnaryExpr{Op: token.NOT, X: &ast.ParenExpr{X: x.Cond}}
				}
			}
		case *ast.SelectorExpr:
			if op == "ack-nack" && (x.Sel.Name == "Ack" || x.Sel.Name == "Nack" || x.Sel.Name == "Acked" || x.Sel.Name == "Nacked") {
				if hit(x, "swapped: "+exprString(fset, x)) {
					x.Sel = ast.NewIdent(map[string]string{"Ack": "Nack", "Nack": "Ack", "Acked": "Nacked", "Nacked": "Acked"}[x.Sel.Name])
				}
			}
		case *ast.SelectStmt:
			if op == "drop-select-case" && len(x.Body.List) > 1 {
				for i, cc := range x.Body.List {
					c := cc.(*ast.CommClause)
					if c.Comm == nil {
						continue
					}
					if hit(c, "removed select case: "+exprString(fset, c.Comm)) {
						x.Body.List = append(append([]ast.Stmt{}, x.Body.List[:i]...), x.Body.List[i+1:]...)
						break
					}
				}
			}
		case *ast.ReturnStmt:
			if op == "return-nil" && len(x.Results) > 0 {
				last := x.Results[len(x.Results)-1]
				if id, ok := last.(*ast.Ident); ok && (id.Name == "err" || strings.HasSuffix(id.Name, "Err")) {
					if hit(x, "return nil instead of: "+exprString(fset, x)) {
						x.Results[len(x.Results)-1] = ast.NewIdent("nil")
					}
				} else if c, ok := last.(*ast.CallExpr); ok && (strings.Contains(exprString(fset, c.Fun), "errors.") || strings.Contains(exprString(fset, c.Fun), "Errorf")) {
					if hit(x, "return nil instead of: "+exprString(fset, x)) {
						x.Results[len(x.Results)-1] = ast.NewIdent("nil")
					}
				}
			}
		}
		return !done
	})
	return line, desc, done
}
