module verif/mutate

go 1.21
