#!/bin/bash
# usage: tools/try_benign.sh <patch.diff> [PROP...]   (default: every claimed property)
# Runs the quick checks against a scratch worktree of /repo with a property-PRESERVING change applied: every check must stay
# quiet (exit 0). Prints one line per check; the scratch worktree is removed afterwards.
set -u
VHOME=$(cd "$(dirname "$0")/.." && pwd)   # the checks of the tree this script lives in (a snapshot works too)
export GOFLAGS=-mod=mod GOPROXY=off GOSUMDB=off
patch=$(readlink -f "$1"); shift
props=${*:-$(python3 -c "import json;print(' '.join(c['property_id'] for c in json.load(open('$VHOME/MANIFEST.json'))['checks']))")}
wt=/var/tmp/benign-wt-$$
git -C /repo worktree add --detach $wt HEAD -q || exit 2
trap 'git -C /repo worktree remove --force '$wt EXIT
git -C $wt apply "$patch" || { echo "try_benign: patch does not apply"; exit 2; }
(cd $wt && go build ./...) || { echo "try_benign: does not build"; exit 2; }
cd "$VHOME"
bad=0
for p in $props; do
  out=$(VERIF_REPO=$wt VERIF_EVIDENCE_DIR=/var/tmp/benign-evidence VERIF_REPLAY_DIR=/var/tmp/benign-replays-$$ VERIF_BUDGET_S=${VERIF_BUDGET_S:-15} ./check $p quick 2>&1); rc=$?
  echo "--- $p exit=$rc"
  if [ $rc -ne 0 ]; then bad=1; echo "$out" | grep -E "^(violation:|VIOLATION|check: MACHINERY|  )" | head -8; fi
done
exit $bad
