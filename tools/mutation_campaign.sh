#!/bin/bash
# Mechanical sensitivity campaign: syntactic mutants (tools/mutate) of the anchored source files that still compile and
# still pass the relevant upstream test packages are run against the properties' quick checks (VERIF_REPO = scratch worktree).
# usage: tools/mutation_campaign.sh [max mutants per file (default 40)] [instance k] [instances n]  -> /var/tmp/mutation.<k>.tsv
# (instance k of n takes every n-th target file; run n instances side by side)
set -u
VHOME=$(cd "$(dirname "$0")/.." && pwd)   # the checks of the tree this script lives in (a snapshot works too)
export GOFLAGS=-mod=mod GOPROXY=off GOSUMDB=off
MAXPER=${1:-40}
INST=${2:-0}; NINST=${3:-1}
OUT=${MUT_OUT:-/var/tmp/mutation.$INST.tsv}
wt=/var/tmp/mut-wt-$INST
cd "$VHOME"
mkdir -p "$VHOME/.cache"
[ -x "$VHOME/.cache/mutate" ] || (cd tools/mutate && go build -o "$VHOME/.cache/mutate" .)
rm -rf $wt; git -C /repo worktree prune; git -C /repo worktree add --detach $wt HEAD -q || exit 2
flaky='TestPublishSubscribe_persistent|TestPublishSubscribe_race_condition_on_subscribe|TestMapExpiringKeyRepositoryCleanup|TestRequestReply_parallel_same_handler'
# file | upstream test packages | properties
targets="
message/message.go|./message/ ./pubsub/gochannel/|C03 C02
message/router.go|./message/ ./components/fanin/ ./components/forwarder/ ./components/cqrs/|C02 C06 C08 C09 C10 C01
message/decorator.go|./message/ ./components/metrics/|C07 C20 C06
pubsub/gochannel/pubsub.go|./pubsub/gochannel/ ./components/requestreply/ ./components/fanin/|C04 C05 C07 C11
pubsub/gochannel/fanout.go|./pubsub/gochannel/|C17
pubsub/sync/waitgroup.go|./pubsub/sync/ ./message/|C06
message/router/middleware/retry.go|./message/router/middleware/|C12
message/router/middleware/poison.go|./message/router/middleware/|C13
message/router/middleware/deduplicator.go|./message/router/middleware/|C14
message/router/middleware/timeout.go|./message/router/middleware/|C19
message/router/middleware/correlation.go|./message/router/middleware/|C19
message/router/middleware/recoverer.go|./message/router/middleware/|C19
message/router/middleware/ignore_errors.go|./message/router/middleware/|C19
message/router/middleware/instant_ack.go|./message/router/middleware/|C19
message/router/middleware/throttle.go|./message/router/middleware/|C19
message/router/middleware/delay_on_error.go|./message/router/middleware/|C19
message/router/middleware/circuit_breaker.go|./message/router/middleware/|C19
components/cqrs/command_bus.go|./components/cqrs/|C15
components/cqrs/event_bus.go|./components/cqrs/|C15
components/cqrs/command_processor.go|./components/cqrs/ ./components/requestreply/|C15
components/cqrs/event_processor.go|./components/cqrs/|C15
components/cqrs/event_processor_group.go|./components/cqrs/|C15
components/forwarder/forwarder.go|./components/forwarder/|C17
components/forwarder/envelope.go|./components/forwarder/|C17
components/forwarder/publisher.go|./components/forwarder/|C17
components/fanin/fanin.go|./components/fanin/|C17
components/requeuer/requeuer.go|./components/requeuer/|C17
components/requestreply/backend_pubsub.go|./components/requestreply/|C18
components/requestreply/handler.go|./components/requestreply/|C18
components/requestreply/command_bus.go|./components/requestreply/|C18
components/delay/publisher.go|./components/delay/ ./message/router/middleware/|C20 C19
components/delay/delay.go|./components/delay/ ./message/router/middleware/|C20 C19
components/metrics/publisher.go|./components/metrics/|C20
components/metrics/subscriber.go|./components/metrics/|C20
components/metrics/handler.go|./components/metrics/|C20
"
[ -n "${MUT_TARGETS:-}" ] && targets=$(cat "$MUT_TARGETS")
echo -e "file\tmutant\top\tline\tdescription\tverdict\tdetail" > $OUT
echo "$targets" | while IFS='|' read -r file pkgs props; do
  [ -z "$file" ] && continue
  idx=$(( ${idx:--1} + 1 )); [ $(( idx % NINST )) -ne $INST ] && continue
  md=/var/tmp/mutants/$(echo $file | tr '/' '_')
  rm -rf $md; "$VHOME/.cache/mutate" -file /repo/$file -out $md >/dev/null
  total=$(wc -l < $md/index.tsv)
  step=$(( (total + MAXPER - 1) / MAXPER )); [ $step -lt 1 ] && step=1
  while IFS=$'\t' read -r n op line desc; do
    [ -z "$n" ] && continue
    [ $(( (n - 1) % step )) -ne 0 ] && continue
    cd $wt; git checkout -q -- .; cp $md/$n.go $file
    if ! go build ./... >/dev/null 2>&1; then
      echo -e "$file\t$n\t$op\t$line\t$desc\tdoes-not-compile\t" >> $OUT; continue
    fi
    fails=$(timeout 300 go test -vet=off -count=1 -timeout 120s $pkgs 2>&1 | grep -E "^(--- FAIL|FAIL|panic: test timed out|panic:)" | grep -vE "$flaky" | head -3 | tr '\n' ';')
    if [ -n "$fails" ]; then
      echo -e "$file\t$n\t$op\t$line\t$desc\tkilled-by-upstream-tests\t${fails:0:120}" >> $OUT; continue
    fi
    verdict="SURVIVED"; detail=""
    for p in $props; do
      out=$(cd "$VHOME" && VERIF_REPO=$wt VERIF_BUDGET_S=12 VERIF_WORKERS=4 VERIF_EVIDENCE_DIR=/var/tmp/seed-evidence-$INST VERIF_REPLAY_DIR=/var/tmp/mut-replays-$INST ./check $p quick 2>&1); rc=$?
      if [ $rc -eq 1 ]; then
        verdict="DETECTED"; detail="$p: $(echo "$out" | grep -m1 -oE "rule=[A-Z0-9.]+ sig=('[^']*'|\"[^\"]*\")" | cut -c1-160)"; break
      elif [ $rc -ne 0 ]; then
        verdict="MACHINERY"; detail="$p exit=$rc: $(echo "$out" | grep -m1 'MACHINERY' | cut -c1-160)"; break
      fi
    done
    echo -e "$file\t$n\t$op\t$line\t$desc\t$verdict\t$detail" >> $OUT
  done < $md/index.tsv
done
cd "$VHOME"; git -C /repo worktree remove --force $wt
echo "campaign finished: $(grep -c DETECTED $OUT) detected, $(grep -c SURVIVED $OUT) survived, $(grep -c killed-by $OUT) killed by upstream tests, $(grep -c does-not $OUT) do not compile"
