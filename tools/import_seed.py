#!/usr/bin/env python3
"""import_seed.py <ID> <A|B>: copies a sub-agent's deliverable into /verif/seeded/<ID>-<v>/ (patch.diff, demo_test.go, meta.json)."""
import json, os, shutil, sys
pid, v = sys.argv[1], sys.argv[2]
outsuffix = sys.argv[3] if len(sys.argv) > 3 else ""      # e.g. "2" for the second wave
dstv = sys.argv[4] if len(sys.argv) > 4 else v             # letter used in /verif/seeded
src = "/tmp/wt/%s.out%s/%s" % (pid, outsuffix, v)
dst = "/verif/seeded/%s-%s" % (pid, dstv)
os.makedirs(dst, exist_ok=True)
shutil.copy(src + "/patch.diff", dst + "/patch.diff")
shutil.copy(src + "/demo_test.go", dst + "/demo_test.go")
m = json.load(open(src + "/meta.json"))
meta = {
    "property": pid,
    "breaks": m.get("summary", ""),
    "needs_to_manifest": m.get("needs_to_manifest", ""),
    "files": m.get("files", []),
    "author": "independent sub-agent given only the property text and a scratch worktree" + (" (second wave: asked for interleaving / fault-window dependent changes)" if outsuffix == "2" else ""),
    "sub_agent_commands": m.get("commands_run", []),
}
old = {}
if os.path.exists(dst + "/meta.json"):
    old = json.load(open(dst + "/meta.json"))
for k in ("audit", "detected_by", "demo_pkg", "check_history", "ported"):
    if k in old:
        meta[k] = old[k]
json.dump(meta, open(dst + "/meta.json", "w"), indent=1)
print("imported", dst)
