#!/bin/bash
# Confirms every seeded change in /verif/seeded against /repo HEAD in a scratch worktree:
#   patch applies, builds, the repository's suite still passes with it (known-flaky tests ignored),
#   the demonstration fails with it and passes without it; then runs the property's quick check against that worktree
#   (VERIF_REPO) with the patch applied and records everything in the seed's meta.json under "audit".
# usage: tools/audit_seeds.sh [seed-dir-names...]   (default: all); AUDIT_CHECK_ONLY=1 repeats only the check part
set -u
VHOME=$(cd "$(dirname "$0")/.." && pwd)   # checks are taken from the tree this script lives in; results go to /verif/seeded
export GOFLAGS=-mod=mod GOPROXY=off GOSUMDB=off
cd /verif
seeds=${@:-$(ls seeded | grep -E '^C[0-9]+-')}
wt=${AUDIT_WT:-/var/tmp/seed-audit-wt}
rm -rf $wt; git -C /repo worktree prune; git -C /repo worktree add --detach $wt HEAD -q || exit 2
flaky='TestPublishSubscribe_persistent|TestPublishSubscribe_race_condition_on_subscribe|TestMapExpiringKeyRepositoryCleanup|TestRequestReply_parallel_same_handler'
for s in $seeds; do
  d=/verif/seeded/$s
  prop=${s%%-*}
  pkg=$(grep -m1 -oE 'Package directory: *[A-Za-z0-9_/.-]+' $d/demo_test.go | sed 's/Package directory: *//; s#/$##')
  cd $wt; git checkout -q -- .; git clean -fdq
  applies=true; builds=true; suite="not run"; demo_with=-1; demo_without=-1
  if ! git apply $d/patch.diff 2>/dev/null; then applies=false; fi
  if $applies; then
    go build ./... >/dev/null 2>&1 || builds=false
    if $builds && [ -z "${AUDIT_CHECK_ONLY:-}" ]; then
      fails=$(go test -vet=off -count=1 -timeout 20m ./... 2>&1 | grep -E "^--- FAIL" | grep -vE "$flaky" | sort -u | head -5 | tr '\n' ';')
      suite=${fails:-pass}
      cp $d/demo_test.go $pkg/zz_seed_demo_test.go
      go test -vet=off -count=1 -timeout 10m -run 'Seed' ./$pkg/ >/dev/null 2>&1; demo_with=$?
      git checkout -q -- .
      go test -vet=off -count=1 -timeout 10m -run 'Seed' ./$pkg/ >/dev/null 2>&1; demo_without=$?
      rm -f $pkg/zz_seed_demo_test.go
    fi
  fi
  git checkout -q -- .; git clean -fdq
  # the property's quick check against the scratch worktree with the change applied (VERIF_REPO), evidence and replays kept out of /verif
  verdict="not run"; rule=""
  if $applies && $builds; then
    cd $wt; git apply $d/patch.diff
    # the check of the seed's own property first; then the checks named in meta.json "checked_by" (a change written against one
    # property that is caught by the check of another one, e.g. a Timeout change that breaks Retry is caught by C19)
    others=$(python3 -c "import json;print(' '.join(json.load(open('$d/meta.json')).get('checked_by',[])))")
    for cp in $prop $others; do
      out=$(cd "$VHOME" && VERIF_REPO=$wt VERIF_EVIDENCE_DIR=/var/tmp/seed-evidence-$$ VERIF_REPLAY_DIR=/var/tmp/seed-replays-$$ ./check $cp quick 2>&1); rc=$?
      rule=$(echo "$out" | grep -m1 -oE "^violation: rule=[A-Z0-9.]+ sig='[^']*'|^violation: rule=[A-Z0-9.]+ sig=\"[^\"]*\"" | sed 's/^violation: //')
      case $rc in 0) verdict="MISSED";; 1) verdict="DETECTED";; *) verdict="MACHINERY($rc)";; esac
      [ $rc -eq 0 ] || break
    done
    git checkout -q -- .; git clean -fdq
  fi
  python3 - "$d" "$pkg" "$applies" "$builds" "$suite" "$demo_with" "$demo_without" "$verdict" "$rule" <<'PY'
import json,sys,subprocess
d,pkg,applies,builds,suite,dw,dwo,verdict,rule=sys.argv[1:]
m=json.load(open(d+'/meta.json'))
head=subprocess.check_output(['git','-C','/repo','log','--format=%h','-1']).decode().strip()
m['demo_pkg']=pkg
if suite=='not run' and 'audit' in m:
    # check-only pass (AUDIT_CHECK_ONLY=1): the suite and demonstration results of the last full audit are kept
    a=m['audit']
    a.update({'repo_head':head,'patch_applies':applies=='true','builds':builds=='true','check_quick_verdict':verdict,'first_violation':rule})
    m['detected_by']=('./check %s quick: %s'%(rule.split('=')[1].split('.')[0] if rule.startswith('rule=') else m['property'],rule)) if verdict=='DETECTED' else verdict
    json.dump(m,open(d+'/meta.json','w'),indent=1)
    print('%-8s applies=%s builds=%s (check only) check=%s %s'%(d.split('/')[-1],applies,builds,verdict,rule[:90]))
    sys.exit(0)
m['audit']={'repo_head':head,'patch_applies':applies=='true','builds':builds=='true',
  'existing_suite_with_change (go test -vet=off -count=1 ./..., known-flaky tests ignored)':suite,
  'demo_exit_with_change':int(dw),'demo_exit_without_change':int(dwo),
  'check_quick_verdict':verdict,'first_violation':rule}
m['detected_by']=('./check %s quick: %s'%(rule.split('=')[1].split('.')[0] if rule.startswith('rule=') else m['property'],rule)) if verdict=='DETECTED' else verdict
json.dump(m,open(d+'/meta.json','w'),indent=1)
print('%-8s applies=%s builds=%s suite=%s demo(with/without)=%s/%s check=%s %s'%(d.split('/')[-1],applies,builds,suite[:60],dw,dwo,verdict,rule[:90]))
PY
done
cd /verif; git -C /repo worktree remove --force $wt
