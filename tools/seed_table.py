#!/usr/bin/env python3
"""Regenerates section 9.7 of DESIGN.md (between the SEEDED-TABLE markers) from /verif/seeded/*/meta.json."""
import json, os, re
V = "/verif"
rows = []
for d in sorted(os.listdir(V + "/seeded")):
    p = os.path.join(V, "seeded", d, "meta.json")
    if not os.path.exists(p):
        continue
    m = json.load(open(p))
    a = m.get("audit", {})
    needs = re.sub(r"\s+", " ", m.get("needs_to_manifest", ""))[:230]
    breaks = re.sub(r"\s+", " ", m.get("breaks", ""))[:200]
    det = m.get("detected_by", "?")
    det = re.sub(r"^\./check (C\d+) quick: rule=", r"\1 quick: ", det)
    det = det.replace("|", "/")[:150]
    hist = "as it was" if m.get("check_history", "").startswith("detected by the check as it was") else "after strengthening"
    if "ported" in m:
        hist += ", ported"
    ok = "yes" if (a.get("patch_applies") and a.get("builds") and a.get("demo_exit_with_change") not in (0, -1) and a.get("demo_exit_without_change") == 0) else "?"
    rows.append("| %s | %s | %s | %s | %s | %s |" % (d, breaks.replace("|", "/"), needs.replace("|", "/"), ok, det, hist))
table = ["| seed | change | needs in order to manifest | confirmed (applies, builds, suite passes, demo fails with / passes without) | detected by | check |",
         "|---|---|---|---|---|---|"] + rows
text = "\n".join(table)
p = V + "/DESIGN.md"
s = open(p).read()
start, end = "<!-- SEEDED-TABLE-START -->", "<!-- SEEDED-TABLE-END -->"
if start in s:
    s = s[:s.index(start) + len(start)] + "\n" + text + "\n" + s[s.index(end):]
else:
    s += "\n" + start + "\n" + text + "\n" + end + "\n"
open(p, "w").write(s)
print("%d seeds" % len(rows))
