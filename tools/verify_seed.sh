#!/bin/bash
# usage: tools/verify_seed.sh <worktree> <outdir(A|B dir)> <pkgdir> [full]
# confirms: patch applies and builds, existing tests of the touched area pass with it, demo fails with it and passes without.
set -u
export GOFLAGS=-mod=mod GOPROXY=off GOSUMDB=off
wt=$1; out=$(readlink -f $2); pkg=$3; full=${4:-}
cd $wt || exit 2
git checkout -q -- . ; git clean -fdq
git apply $out/patch.diff || { echo "VERIFY: patch does not apply"; exit 1; }
go build ./... || { echo "VERIFY: build fails with change"; git checkout -q -- .; exit 1; }
if [ -n "$full" ]; then tp="./..."; else tp="./$pkg/..."; fi
res=$(go test -vet=off -count=1 -timeout 20m $tp 2>&1 | grep -E "^(FAIL|--- FAIL|panic)" | grep -v "TestPublishSubscribe_persistent\|TestPublishSubscribe_race_condition_on_subscribe\|TestMapExpiringKeyRepositoryCleanup\|TestRequestReply_parallel_same_handler" | head -5)
echo "VERIFY existing tests with change ($tp): ${res:-all pass}"
cp $out/demo_test.go $pkg/zz_seed_demo_test.go
go test -vet=off -count=1 -timeout 10m -run 'Seed' ./$pkg/ > /tmp/verify_with.txt 2>&1; rcw=$?
git checkout -q -- .
go test -vet=off -count=1 -timeout 10m -run 'Seed' ./$pkg/ > /tmp/verify_without.txt 2>&1; rco=$?
rm -f $pkg/zz_seed_demo_test.go
echo "VERIFY demo with change: exit=$rcw ($(grep -cE '^--- FAIL' /tmp/verify_with.txt) failing tests); without change: exit=$rco ($(grep -cE '^(--- PASS|ok)' /tmp/verify_without.txt) ok lines)"
git checkout -q -- . ; git clean -fdq
