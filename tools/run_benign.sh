#!/bin/bash
# Runs every property-preserving change in benign/<ID>-G/patch.diff through the quick checks of the properties whose
# code it touches (tools/try_benign.sh: scratch worktree of /repo, VERIF_REPO). Every check must stay quiet.
# usage: tools/run_benign.sh [ID-G ...]  -> prints one line per check; exit 1 if any check raised an alarm
VHOME=$(cd "$(dirname "$0")/.." && pwd)
cd "$VHOME"
ids=${@:-$(ls benign | grep -E '^C[0-9]+-[GJMQRS]$')}
bad=0
for d in $ids; do
  p=$VHOME/benign/$d/patch.diff
  props=""
  grep -q "message/router.go\|message/router_context.go" $p && props="$props C01 C02 C06 C08 C09 C10 C13 C15 C17 C18 C20"
  grep -q "pubsub/gochannel" $p && props="$props C01 C04 C05 C07 C11 C17 C18 C10 C13"
  grep -q "message/message.go" $p && props="$props C03 C01 C02 C04 C20"
  grep -q "middleware/" $p && props="$props C12 C13 C14 C19"
  grep -q "components/cqrs" $p && props="$props C15 C18"
  grep -q "components/requestreply" $p && props="$props C18"
  grep -q "components/forwarder\|components/fanin\|components/requeuer\|gochannel/fanout" $p && props="$props C17"
  grep -q "components/metrics\|components/delay\|message/decorator.go" $p && props="$props C20 C19 C07 C06"
  props=$(echo $props | tr ' ' '\n' | sort -u | tr '\n' ' ')
  # BENIGN_ONLY="C02 C06": run only these of the mapped checks (after a change to some scenarios only)
  if [ -n "${BENIGN_ONLY:-}" ]; then props=$(for q in $props; do for o in $BENIGN_ONLY; do [ $q = $o ] && echo -n "$q "; done; done); fi
  [ -z "$props" ] && continue
  echo "=== $d -> $props"
  tools/try_benign.sh $p $props 2>&1 || bad=1
done
exit $bad
