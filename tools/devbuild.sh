#!/bin/bash
# developer helper: rebuild the scratch harness quickly (the real pipeline is ./check)
set -e
export GOFLAGS=-mod=mod GOPROXY=off GOSUMDB=off GOTOOLCHAIN=local PATH=/opt/veriftools/go1.26.8/bin:$PATH
S=${S:-/var/tmp/vs-test}
if [ "$1" = "full" ] || [ ! -d $S/wm ]; then
  rm -rf $S; mkdir -p $S/wm
  rsync -a --exclude .git --exclude docs --exclude _examples --exclude tools --exclude dev --exclude '*_test.go' --exclude 'pubsub/tests' /repo/ $S/wm/
  mkdir -p $S/wm/verifsim; cp -r /verif/verifsim/* $S/wm/verifsim/
  (cd $S/wm && /verif/.cache/simrewrite -dir $S/wm ./...)
fi
rm -rf $S/wm/verifsim; cp -r /verif/verifsim $S/wm/verifsim
rm -rf $S/harness; cp -r /verif/harness $S/harness; cp /repo/go.sum $S/harness/go.sum
(cd $S/harness && /verif/.cache/simrewrite -dir $S/harness -fine=false -permmaps=false ./scen/... && go vet ./scen/ 2>&1 | grep -v "^#" | head -20; go test -c -o $S/simcheck .)
