// simrewrite instruments a scratch copy of Go packages for deterministic
// simulation: it swaps "sync" for the scheduler-mediated vsync, routes every go
// statement, channel operation, select, close, range-over-channel and
// range-over-map through simrt helpers and (optionally) inserts statement-level
// yields. It never touches /repo: it is pointed at a scratch directory.
package main

import (
	"bytes"
	"flag"
	"fmt"
	"go/ast"
	"go/format"
	"go/token"
	"go/types"
	"os"
	"strconv"
	"strings"

	"golang.org/x/tools/go/ast/astutil"
	"golang.org/x/tools/go/packages"
)

var (
	dir      = flag.String("dir", ".", "module root of the scratch copy")
	simrtPkg = flag.String("simrt", "github.com/ThreeDotsLabs/watermill/verifsim/simrt", "import path of simrt")
	vsyncPkg = flag.String("vsync", "github.com/ThreeDotsLabs/watermill/verifsim/vsync", "import path of vsync")
	fine     = flag.Bool("fine", true, "insert statement-level yields")
	permMaps = flag.Bool("permmaps", true, "tape-permute map iteration (false: sorted)")
	swapSync = flag.Bool("swapsync", true, "replace the sync import by vsync")
	verbose  = flag.Bool("v", false, "verbose")
)

const rt = "verifsimrt"

type stats struct {
	files, goStmts, sends, recvs, closes, selects, rangeChan, rangeMap, yields, sleeps, syncSwaps int
}

var st stats

func main() {
	flag.Parse()
	cfg := &packages.Config{
		Mode: packages.NeedName | packages.NeedFiles | packages.NeedCompiledGoFiles | packages.NeedSyntax |
			packages.NeedTypes | packages.NeedTypesInfo | packages.NeedImports,
		Dir:   *dir,
		Tests: false,
		Env:   os.Environ(),
	}
	pkgs, err := packages.Load(cfg, flag.Args()...)
	if err != nil {
		fmt.Fprintln(os.Stderr, "simrewrite: load:", err)
		os.Exit(2)
	}
	bad := false
	for _, p := range pkgs {
		for _, e := range p.Errors {
			fmt.Fprintln(os.Stderr, "simrewrite: package error:", e)
			bad = true
		}
	}
	if bad {
		os.Exit(2)
	}
	for _, p := range pkgs {
		if strings.Contains(p.PkgPath, "/verifsim/") {
			continue
		}
		for i, f := range p.Syntax {
			name := p.CompiledGoFiles[i]
			if strings.HasSuffix(name, "_test.go") {
				continue
			}
			out, changed, err := rewriteFile(p, f)
			if err != nil {
				fmt.Fprintf(os.Stderr, "simrewrite: %s: %v\n", name, err)
				os.Exit(2)
			}
			if changed {
				if err := os.WriteFile(name, out, 0o644); err != nil {
					fmt.Fprintln(os.Stderr, "simrewrite:", err)
					os.Exit(2)
				}
				st.files++
			}
		}
	}
	fmt.Printf("simrewrite: files=%d go=%d send=%d recv=%d close=%d select=%d rangeChan=%d rangeMap=%d sleep=%d yields=%d syncSwaps=%d\n",
		st.files, st.goStmts, st.sends, st.recvs, st.closes, st.selects, st.rangeChan, st.rangeMap, st.sleeps, st.yields, st.syncSwaps)
}

type decisions struct {
	skip      map[ast.Node]bool // comm statements/expressions handled by the select rewrite
	recv2     map[*ast.UnaryExpr]bool
	rangeKind map[*ast.RangeStmt]int // 1 chan, 2 map (permuted), 3 map (sorted)
	sendGen   map[*ast.SendStmt]bool
	closeCall map[*ast.CallExpr]bool
	sleepCall map[*ast.CallExpr]bool
	goConst   map[*ast.GoStmt][]bool
	goNoHoist map[*ast.GoStmt]bool
	hoisted   map[*ast.BlockStmt]bool
}

func sel(name string) ast.Expr {
	return &ast.SelectorExpr{X: ast.NewIdent(rt), Sel: ast.NewIdent(name)}
}

func call(name string, args ...ast.Expr) *ast.CallExpr {
	return &ast.CallExpr{Fun: sel(name), Args: args}
}

func define(name string, rhs ast.Expr) ast.Stmt {
	return &ast.AssignStmt{Lhs: []ast.Expr{ast.NewIdent(name)}, Tok: token.DEFINE, Rhs: []ast.Expr{rhs}}
}

func unparen(e ast.Expr) ast.Expr {
	for {
		p, ok := e.(*ast.ParenExpr)
		if !ok {
			return e
		}
		e = p.X
	}
}

func isBlank(e ast.Expr) bool {
	if e == nil {
		return true
	}
	id, ok := e.(*ast.Ident)
	return ok && id.Name == "_"
}

func rewriteFile(p *packages.Package, f *ast.File) ([]byte, bool, error) {
	info := p.TypesInfo
	d := &decisions{
		skip:      map[ast.Node]bool{},
		recv2:     map[*ast.UnaryExpr]bool{},
		rangeKind: map[*ast.RangeStmt]int{},
		sendGen:   map[*ast.SendStmt]bool{},
		closeCall: map[*ast.CallExpr]bool{},
		sleepCall: map[*ast.CallExpr]bool{},
		goConst:   map[*ast.GoStmt][]bool{},
		goNoHoist: map[*ast.GoStmt]bool{},
		hoisted:   map[*ast.BlockStmt]bool{},
	}
	changed := false

	// ---- pass 1: decisions from type information on the untouched tree
	ast.Inspect(f, func(n ast.Node) bool {
		switch n := n.(type) {
		case *ast.CommClause:
			switch c := n.Comm.(type) {
			case *ast.SendStmt:
				d.skip[c] = true
			case *ast.ExprStmt:
				d.skip[unparen(c.X)] = true
			case *ast.AssignStmt:
				d.skip[unparen(c.Rhs[0])] = true
			}
		case *ast.AssignStmt:
			if len(n.Lhs) == 2 && len(n.Rhs) == 1 {
				if ue, ok := unparen(n.Rhs[0]).(*ast.UnaryExpr); ok && ue.Op == token.ARROW {
					d.recv2[ue] = true
				}
			}
		case *ast.ValueSpec:
			if len(n.Names) == 2 && len(n.Values) == 1 {
				if ue, ok := unparen(n.Values[0]).(*ast.UnaryExpr); ok && ue.Op == token.ARROW {
					d.recv2[ue] = true
				}
			}
		case *ast.RangeStmt:
			t := info.TypeOf(n.X)
			if t != nil {
				switch u := t.Underlying().(type) {
				case *types.Chan:
					d.rangeKind[n] = 1
				case *types.Map:
					d.rangeKind[n] = 2
					if b, ok := u.Elem().Underlying().(*types.Basic); ok && b.Kind() == types.String {
						d.rangeKind[n] = 3
					}
					if !*permMaps {
						d.rangeKind[n] = 3
					}
				}
			}
		case *ast.SendStmt:
			ct := info.TypeOf(n.Chan)
			vt := info.TypeOf(n.Value)
			if ct != nil && vt != nil {
				if ch, ok := ct.Underlying().(*types.Chan); ok {
					if tv, ok := info.Types[n.Value]; ok && !tv.IsNil() && types.Identical(ch.Elem(), vt) {
						// named channel types defeat inference through directions; keep it simple
						if _, named := ct.(*types.Named); !named {
							d.sendGen[n] = true
						}
					}
				}
			}
		case *ast.CallExpr:
			switch fn := unparen(n.Fun).(type) {
			case *ast.Ident:
				if fn.Name == "close" {
					if _, ok := info.Uses[fn].(*types.Builtin); ok {
						d.closeCall[n] = true
					}
				}
			case *ast.SelectorExpr:
				if obj, ok := info.Uses[fn.Sel].(*types.Func); ok && obj.Pkg() != nil && obj.Pkg().Path() == "time" && obj.Name() == "Sleep" {
					d.sleepCall[n] = true
				}
			}
		case *ast.GoStmt:
			cs := make([]bool, len(n.Call.Args))
			for i, a := range n.Call.Args {
				tv, ok := info.Types[a]
				if ok && (tv.Value != nil || tv.IsNil()) {
					cs[i] = true
				}
				if ok {
					if _, tuple := tv.Type.(*types.Tuple); tuple {
						d.goNoHoist[n] = true
					}
				}
			}
			d.goConst[n] = cs
			// calls of builtins / conversions cannot be hoisted as values
			switch fn := unparen(n.Call.Fun).(type) {
			case *ast.Ident:
				if _, ok := info.Uses[fn].(*types.Builtin); ok {
					d.goNoHoist[n] = true
				}
			}
			if tv, ok := info.Types[n.Call.Fun]; ok && tv.IsType() {
				d.goNoHoist[n] = true
			}
			// generic function without explicit instantiation: cannot be assigned
			if inst, ok := info.Instances[calleeIdent(n.Call.Fun)]; ok && inst.TypeArgs != nil && inst.TypeArgs.Len() > 0 {
				if _, isIdx := unparen(n.Call.Fun).(*ast.IndexExpr); !isIdx {
					d.goNoHoist[n] = true
				}
			}
		}
		return true
	})

	// ---- pass 2: post-order rewrite
	astutil.Apply(f, nil, func(c *astutil.Cursor) bool {
		switch n := c.Node().(type) {
		case *ast.UnaryExpr:
			if n.Op == token.ARROW && !d.skip[n] {
				name := "Recv"
				if d.recv2[n] {
					name = "Recv2"
				}
				c.Replace(call(name, n.X))
				st.recvs++
				changed = true
			}
		case *ast.SendStmt:
			if !d.skip[n] {
				name := "SendAny"
				if d.sendGen[n] {
					name = "Send"
				}
				c.Replace(&ast.ExprStmt{X: call(name, n.Chan, n.Value)})
				st.sends++
				changed = true
			}
		case *ast.CallExpr:
			if d.closeCall[n] {
				n.Fun = sel("Close")
				st.closes++
				changed = true
			} else if d.sleepCall[n] {
				n.Fun = sel("Sleep")
				st.sleeps++
				changed = true
			}
		case *ast.GoStmt:
			c.Replace(rewriteGo(n, d))
			st.goStmts++
			changed = true
		case *ast.RangeStmt:
			switch d.rangeKind[n] {
			case 1:
				c.Replace(rewriteRangeChan(n, d))
				st.rangeChan++
				changed = true
			case 2, 3:
				c.Replace(rewriteRangeMap(n, d, d.rangeKind[n] == 2))
				st.rangeMap++
				changed = true
			}
		case *ast.SelectStmt:
			c.Replace(rewriteSelect(n, d))
			st.selects++
			changed = true
		case *ast.LabeledStmt:
			if b, ok := n.Stmt.(*ast.BlockStmt); ok && d.hoisted[b] {
				last := len(b.List) - 1
				b.List[last] = &ast.LabeledStmt{Label: n.Label, Stmt: b.List[last]}
				c.Replace(b)
			}
		}
		return true
	})

	// ---- pass 3: statement-level yields
	if *fine {
		ast.Inspect(f, func(n ast.Node) bool {
			switch n := n.(type) {
			case *ast.BlockStmt:
				if !d.hoisted[n] {
					n.List = withYields(n.List)
				}
			case *ast.CaseClause:
				n.Body = withYields(n.Body)
			case *ast.CommClause:
				n.Body = withYields(n.Body)
			}
			return true
		})
		if st.yields > 0 {
			changed = true
		}
	}

	// ---- imports
	if *swapSync {
		for _, imp := range f.Imports {
			if imp.Path.Value == `"sync"` {
				imp.Path.Value = strconv.Quote(*vsyncPkg)
				if imp.Name == nil {
					imp.Name = ast.NewIdent("sync")
				}
				st.syncSwaps++
				changed = true
			}
		}
	}
	if !changed {
		return nil, false, nil
	}
	if usesRT(f) {
		astutil.AddNamedImport(p.Fset, f, rt, *simrtPkg)
	}

	// comments are positioned by offset and would land inside generated code: keep only the header (build constraints)
	var keep []*ast.CommentGroup
	for _, cg := range f.Comments {
		if cg.End() < f.Package {
			keep = append(keep, cg)
		}
	}
	f.Comments = keep
	f.Doc = nil

	var buf bytes.Buffer
	if err := format.Node(&buf, p.Fset, f); err != nil {
		return nil, false, err
	}
	return buf.Bytes(), true, nil
}

func calleeIdent(e ast.Expr) *ast.Ident {
	switch e := unparen(e).(type) {
	case *ast.Ident:
		return e
	case *ast.SelectorExpr:
		return e.Sel
	}
	return nil
}

func usesRT(f *ast.File) bool {
	found := false
	ast.Inspect(f, func(n ast.Node) bool {
		if s, ok := n.(*ast.SelectorExpr); ok {
			if id, ok := s.X.(*ast.Ident); ok && id.Name == rt {
				found = true
			}
		}
		return !found
	})
	return found
}

func withYields(list []ast.Stmt) []ast.Stmt {
	if len(list) == 0 {
		return list
	}
	switch list[0].(type) {
	case *ast.CaseClause, *ast.CommClause:
		return list
	}
	out := make([]ast.Stmt, 0, 2*len(list))
	for _, s := range list {
		if es, ok := s.(*ast.ExprStmt); ok {
			if ce, ok := es.X.(*ast.CallExpr); ok {
				if se, ok := ce.Fun.(*ast.SelectorExpr); ok {
					if id, ok := se.X.(*ast.Ident); ok && id.Name == rt {
						// a helper call is a scheduling point already
						out = append(out, s)
						continue
					}
				}
			}
		}
		out = append(out, &ast.ExprStmt{X: call("P")})
		st.yields++
		out = append(out, s)
	}
	return out
}

func rewriteGo(n *ast.GoStmt, d *decisions) ast.Stmt {
	c := n.Call
	if lit, ok := unparen(c.Fun).(*ast.FuncLit); ok && len(c.Args) == 0 {
		return &ast.ExprStmt{X: call("Go", lit)}
	}
	if d.goNoHoist[n] {
		body := &ast.BlockStmt{List: []ast.Stmt{&ast.ExprStmt{X: c}}}
		return &ast.ExprStmt{X: call("Go", &ast.FuncLit{Type: &ast.FuncType{Params: &ast.FieldList{}}, Body: body})}
	}
	var pre []ast.Stmt
	fun := c.Fun
	if _, ok := unparen(fun).(*ast.FuncLit); !ok {
		pre = append(pre, define("_vf", fun))
		fun = ast.NewIdent("_vf")
	}
	args := make([]ast.Expr, len(c.Args))
	cs := d.goConst[n]
	for i, a := range c.Args {
		if i < len(cs) && cs[i] {
			args[i] = a
			continue
		}
		name := "_va" + strconv.Itoa(i)
		pre = append(pre, define(name, a))
		args[i] = ast.NewIdent(name)
	}
	inner := &ast.CallExpr{Fun: fun, Args: args, Ellipsis: c.Ellipsis}
	body := &ast.BlockStmt{List: []ast.Stmt{&ast.ExprStmt{X: inner}}}
	goCall := &ast.ExprStmt{X: call("Go", &ast.FuncLit{Type: &ast.FuncType{Params: &ast.FieldList{}}, Body: body})}
	b := &ast.BlockStmt{List: append(pre, goCall)}
	d.hoisted[b] = true
	return b
}

func rewriteRangeChan(n *ast.RangeStmt, d *decisions) ast.Stmt {
	var pre []ast.Stmt
	pre = append(pre, define("_vrc", n.X))
	var lhs ast.Expr = ast.NewIdent("_")
	if !isBlank(n.Key) {
		lhs = n.Key
		if n.Tok == token.DEFINE {
			pre = append(pre, &ast.AssignStmt{Lhs: []ast.Expr{n.Key}, Tok: token.DEFINE, Rhs: []ast.Expr{call("Zero", ast.NewIdent("_vrc"))}})
		}
	}
	body := []ast.Stmt{
		&ast.DeclStmt{Decl: &ast.GenDecl{Tok: token.VAR, Specs: []ast.Spec{&ast.ValueSpec{Names: []*ast.Ident{ast.NewIdent("_vok")}, Type: ast.NewIdent("bool")}}}},
		&ast.AssignStmt{Lhs: []ast.Expr{lhs, ast.NewIdent("_vok")}, Tok: token.ASSIGN, Rhs: []ast.Expr{call("Recv2", ast.NewIdent("_vrc"))}},
		&ast.IfStmt{Cond: &ast.UnaryExpr{Op: token.NOT, X: ast.NewIdent("_vok")}, Body: &ast.BlockStmt{List: []ast.Stmt{&ast.BranchStmt{Tok: token.BREAK}}}},
	}
	body = append(body, n.Body)
	loop := &ast.ForStmt{Body: &ast.BlockStmt{List: body}}
	b := &ast.BlockStmt{List: append(pre, loop)}
	d.hoisted[b] = true
	return b
}

func rewriteRangeMap(n *ast.RangeStmt, d *decisions, perm bool) ast.Stmt {
	fn := "SortedKeys"
	if perm {
		fn = "MapKeys"
	}
	pre := []ast.Stmt{define("_vrm", n.X)}
	var body []ast.Stmt
	keyName := "_vk"
	if n.Tok == token.DEFINE && !isBlank(n.Key) {
		keyName = n.Key.(*ast.Ident).Name
	}
	if n.Tok == token.ASSIGN && !isBlank(n.Key) {
		body = append(body, &ast.AssignStmt{Lhs: []ast.Expr{n.Key}, Tok: token.ASSIGN, Rhs: []ast.Expr{ast.NewIdent("_vk")}})
	}
	idx := &ast.IndexExpr{X: ast.NewIdent("_vrm"), Index: ast.NewIdent(keyName)}
	var vlhs ast.Expr = ast.NewIdent("_")
	if !isBlank(n.Value) {
		vlhs = n.Value
	}
	if n.Tok == token.DEFINE {
		body = append(body, &ast.AssignStmt{Lhs: []ast.Expr{vlhs, ast.NewIdent("_vok")}, Tok: token.DEFINE, Rhs: []ast.Expr{idx}})
	} else {
		body = append(body,
			&ast.DeclStmt{Decl: &ast.GenDecl{Tok: token.VAR, Specs: []ast.Spec{&ast.ValueSpec{Names: []*ast.Ident{ast.NewIdent("_vok")}, Type: ast.NewIdent("bool")}}}},
			&ast.AssignStmt{Lhs: []ast.Expr{vlhs, ast.NewIdent("_vok")}, Tok: token.ASSIGN, Rhs: []ast.Expr{idx}})
	}
	body = append(body, &ast.IfStmt{Cond: &ast.UnaryExpr{Op: token.NOT, X: ast.NewIdent("_vok")}, Body: &ast.BlockStmt{List: []ast.Stmt{&ast.BranchStmt{Tok: token.CONTINUE}}}})
	body = append(body, n.Body)
	loop := &ast.RangeStmt{Key: ast.NewIdent("_"), Value: ast.NewIdent(keyName), Tok: token.DEFINE, X: call(fn, ast.NewIdent("_vrm")), Body: &ast.BlockStmt{List: body}}
	b := &ast.BlockStmt{List: append(pre, loop)}
	d.hoisted[b] = true
	return b
}

func rewriteSelect(n *ast.SelectStmt, d *decisions) ast.Stmt {
	if len(n.Body.List) == 0 {
		return &ast.ExprStmt{X: call("Forever")}
	}
	var pre []ast.Stmt
	var caseArgs []ast.Expr
	var clauses []ast.Stmt
	hasDefault := "false"
	idx := 0
	for _, s := range n.Body.List {
		cc := s.(*ast.CommClause)
		if cc.Comm == nil {
			hasDefault = "true"
			clauses = append(clauses, &ast.CaseClause{Body: cc.Body})
			continue
		}
		ch := "_vc" + strconv.Itoa(idx)
		body := cc.Body
		switch comm := cc.Comm.(type) {
		case *ast.SendStmt:
			pre = append(pre, define(ch, comm.Chan))
			caseArgs = append(caseArgs, call("CaseSend", ast.NewIdent(ch), comm.Value))
		case *ast.ExprStmt:
			ue := unparen(comm.X).(*ast.UnaryExpr)
			pre = append(pre, define(ch, ue.X))
			caseArgs = append(caseArgs, call("CaseRecv", ast.NewIdent(ch)))
		case *ast.AssignStmt:
			ue := unparen(comm.Rhs[0]).(*ast.UnaryExpr)
			pre = append(pre, define(ch, ue.X))
			caseArgs = append(caseArgs, call("CaseRecv", ast.NewIdent(ch)))
			fn := "Val"
			if len(comm.Lhs) == 2 {
				fn = "Val2"
			}
			tok := comm.Tok
			allBlank := true
			for _, l := range comm.Lhs {
				if !isBlank(l) {
					allBlank = false
				}
			}
			if allBlank {
				tok = token.ASSIGN
			}
			ext := &ast.AssignStmt{Lhs: comm.Lhs, Tok: tok, Rhs: []ast.Expr{call(fn, ast.NewIdent(ch), ast.NewIdent("_vr"))}}
			body = append([]ast.Stmt{ext}, cc.Body...)
		}
		clauses = append(clauses, &ast.CaseClause{List: []ast.Expr{&ast.BasicLit{Kind: token.INT, Value: strconv.Itoa(idx)}}, Body: body})
		idx++
	}
	if hasDefault == "false" {
		// keeps the statement terminating when the original select was
		clauses = append(clauses, &ast.CaseClause{Body: []ast.Stmt{&ast.ExprStmt{X: &ast.CallExpr{Fun: ast.NewIdent("panic"), Args: []ast.Expr{&ast.BasicLit{Kind: token.STRING, Value: `"verifsim: unreachable select result"`}}}}}})
	}
	args := append([]ast.Expr{ast.NewIdent(hasDefault)}, caseArgs...)
	sw := &ast.SwitchStmt{
		Init: define("_vr", call("Select", args...)),
		Tag:  &ast.SelectorExpr{X: ast.NewIdent("_vr"), Sel: ast.NewIdent("Idx")},
		Body: &ast.BlockStmt{List: clauses},
	}
	b := &ast.BlockStmt{List: append(pre, sw)}
	d.hoisted[b] = true
	return b
}
