#!/bin/bash
# usage: tools/try_seed.sh <patch.diff> <PROP> [more props...]
# applies a seeded change to /repo, runs the quick checks, prints verdicts, and always restores /repo.
set -u
VHOME=$(cd "$(dirname "$0")/.." && pwd)   # the checks of the tree this script lives in (a snapshot works too)
patch=$(readlink -f "$1"); shift
cd /repo || exit 2
if [ -n "$(git status --porcelain)" ]; then echo "try_seed: /repo is not clean"; exit 2; fi
if ! git apply --check "$patch" 2>/dev/null; then echo "try_seed: patch does not apply"; exit 2; fi
git apply "$patch"
trap 'cd /repo && git checkout -- . && git clean -fdq' EXIT
cd "$VHOME"
for p in "$@"; do
  out=$(VERIF_EVIDENCE_DIR=/var/tmp/seed-evidence VERIF_REPLAY_DIR=/var/tmp/seed-replays VERIF_BUDGET_S=${VERIF_BUDGET_S:-20} ./check $p quick 2>&1); rc=$?
  echo "--- $p exit=$rc"
  echo "$out" | grep -E "^(violation:|VIOLATION|check: MACHINERY|  )" | head -${LINES_SHOWN:-6}
done
