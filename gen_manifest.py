#!/usr/bin/env python3
"""Regenerates MANIFEST.json from checks.json (kept separate so the manifest stays valid and consistent)."""
import json, os
V = os.path.dirname(os.path.abspath(__file__))
spec = json.load(open(os.path.join(V, "checks.json")))
props = [json.loads(l)["id"] for l in open(os.path.join(V, "properties.jsonl"))]
checks = []
for pid in props:
    c = spec["checks"].get(pid)
    if not c:
        continue
    checks.append({
        "property_id": pid,
        "quick_cmd": "./check %s quick" % pid,
        "thorough_cmd": "./check %s thorough" % pid,
        "evidence_file": "/verif/evidence/%s.json" % pid,
        "replay_cmd_template": "./check %s --replay {path}" % pid,
        "engine": "verifsim",
        "level_claimed": {"category": c["level"], "text": c["text"], "design_ref": c.get("design_ref", "DESIGN.md §4 " + pid)},
        "level_note": c.get("note", spec["default_note"]),
        "technique": c.get("technique", spec["default_technique"]),
    })
na = [{"property_id": p, "reason": r} for p, r in spec["not_applicable"].items() if p not in spec["checks"]]
m = {
    "version": 1,
    "setup_cmd": "./check build",
    "hooks": {
        "guard": "verifsim (no build tag in /repo: the instrumented sources exist only in the scratch copy produced by tools/simrewrite on every build)",
        "enable": "./check build  (rsync /repo working tree to a scratch dir, tools/simrewrite rewrites sync/go/chan/select/range, go1.26.8 test -c of /verif/harness against it)",
        "baseline_off_cmd": "for m in $(cat /w/out/gomods.txt); do MF=$(cd /repo/$m && . /w/out/goenv.sh && gomodflag); (cd /repo/$m && go test $MF -json -vet=off -count=1 -timeout 25m ./...); done",
        "source_commits": spec.get("hook_commits", []),
        "add_only": True,
    },
    "engines": [{"name": "verifsim", "path": "/verif/verifsim + /verif/tools/simrewrite + /verif/harness + /verif/check",
                 "serves_properties": [c["property_id"] for c in checks],
                 "kind_free_text": "deterministic simulation with fault injection: source-rewritten watermill under a seeded single-runner scheduler inside testing/synctest bubbles (fake clock), choice tapes, tape shrinking, replay files"}],
    "checks": checks,
    "notes": spec.get("notes", ""),
    "not_applicable": na,
}
json.dump(m, open(os.path.join(V, "MANIFEST.json"), "w"), indent=1)
print("MANIFEST.json: %d checks, %d not applicable" % (len(checks), len(na)))
