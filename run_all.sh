#!/bin/bash
# runs every claimed check of MANIFEST.json in the given tier (default quick) and summarises
tier=${1:-quick}
cd "$(dirname "$0")"
fail=0
for p in $(python3 -c "import json;print(' '.join(c['property_id'] for c in json.load(open('MANIFEST.json'))['checks']))"); do
  out=$(./check $p $tier 2>&1); rc=$?
  echo "$out" | grep -E "^(check: C|KNOWN-FINDING|VIOLATION|violation|check: MACHINERY)" | head -8
  echo "== $p $tier exit=$rc"
  [ $rc -ne 0 ] && fail=1
done
exit $fail
